"""strict_content: canonical, URI-level, kind-aware description of a prov document.

Works on real prov objects (Stage B) and on the de-hashed build with symbolic leaves (Stage A): it only uses
isinstance tests, attribute access and == on leaves, never hashing or sorting of leaves.
1, True and 1.0 are different; Identifier and QualifiedName are different kinds; names are compared by URI.
"""
import datetime


def _prov():
    import prov.model as pm
    import prov.identifier as pi

    return pm, pi


def value_desc(v):
    pm, pi = _prov()
    if isinstance(v, bool):
        return ("bool", v)
    if isinstance(v, int):
        return ("int", v)
    if isinstance(v, float):
        return ("float", repr(v))
    if isinstance(v, str):
        return ("str", v)
    if isinstance(v, datetime.datetime):
        off = v.utcoffset()
        return ("datetime", v.replace(tzinfo=None).isoformat(), None if off is None else off.total_seconds())
    if isinstance(v, pi.QualifiedName):
        return ("qname", v.uri)
    if isinstance(v, pi.Identifier):
        return ("uri", v.uri)
    if isinstance(v, pm.Literal):
        dt = v.datatype
        return ("literal", v.value, None if dt is None else getattr(dt, "uri", str(dt)), v.langtag)
    if v is None:
        return ("none",)
    return ("other", type(v).__name__, repr(v))


def record_desc(rec):
    """(type URI, identifier URI | None, [(attr URI, value_desc)...]) in the record's own attribute order."""
    ident = rec.identifier
    attrs = []
    for name, values in rec._attributes.items():
        for v in values:
            attrs.append((name.uri, value_desc(v)))
    return (rec.get_type().uri, None if ident is None else ident.uri, attrs)


def bundle_desc(b):
    return [record_desc(r) for r in b.get_records()]


def doc_desc(d):
    """{'records': [...], 'bundles': [(bundle id URI, [...records...])...]}"""
    out = {"records": bundle_desc(d), "bundles": []}
    if d.is_document():
        for b in d.bundles:
            out["bundles"].append((b.identifier.uri if b.identifier is not None else None, bundle_desc(b)))
    return out


def namespaces_desc(b):
    """registered (prefix, uri) pairs + default namespace URI of one scope, in registration order."""
    regs = [(ns.prefix, ns.uri) for ns in b._namespaces.get_registered_namespaces()]
    dflt = b._namespaces.get_default_namespace()
    return {"registered": regs, "default": None if dflt is None else dflt.uri}


def doc_ns_desc(d):
    out = {"doc": namespaces_desc(d), "bundles": []}
    if d.is_document():
        for b in d.bundles:
            out["bundles"].append((b.identifier.uri if b.identifier is not None else None, namespaces_desc(b)))
    return out


# ---- equality with symbolic leaves (forks on ==; the solver decides every comparison) -------------------------

def leaf_eq(a, b):
    if a is None or b is None:
        return a is None and b is None
    return a == b


def vdesc_eq(a, b):
    if a[0] != b[0] or len(a) != len(b):
        return False
    for x, y in zip(a[1:], b[1:]):
        if not leaf_eq(x, y):
            return False
    return True


def attr_eq(a, b):
    return leaf_eq(a[0], b[0]) and vdesc_eq(a[1], b[1])


def multiset_eq(xs, ys, eq):
    if len(xs) != len(ys):
        return False
    rest = list(ys)
    for x in xs:
        hit = -1
        for i, y in enumerate(rest):
            if eq(x, y):
                hit = i
                break
        if hit < 0:
            return False
        del rest[hit]
    return True


def set_eq(xs, ys, eq):
    for x in xs:
        if not any(eq(x, y) for y in ys):
            return False
    for y in ys:
        if not any(eq(x, y) for x in xs):
            return False
    return True


def record_eq(a, b):
    """strict equality of two record_desc: same type, same identifier URI, same attribute SET."""
    if a[0] != b[0]:
        return False
    if not leaf_eq(a[1], b[1]):
        return False
    return multiset_eq(a[2], b[2], attr_eq)


def records_eq(xs, ys):
    """multiset equality of record lists"""
    return multiset_eq(xs, ys, record_eq)


def doc_eq(a, b):
    if not records_eq(a["records"], b["records"]):
        return False
    if len(a["bundles"]) != len(b["bundles"]):
        return False

    def beq(x, y):
        return leaf_eq(x[0], y[0]) and records_eq(x[1], y[1])

    return multiset_eq(a["bundles"], b["bundles"], beq)


def first_difference(a, b):
    """human-readable hint for a failed doc_eq on CONCRETE descriptions"""
    try:
        import json

        sa = json.dumps(a, sort_keys=True, default=repr)
        sb = json.dumps(b, sort_keys=True, default=repr)
        return "%s  VS  %s" % (sa[:400], sb[:400])
    except Exception:
        return "?"
