"""Independent PROV-XML reader written from the PROV-XML note (W3C NOTE-prov-xml-20130430) using the standard
library's xml.etree.ElementTree (not lxml).  Shares no code with prov.  Output: shape of oracles.strict.doc_desc.
"""
import datetime
import re

RE_XSD_DATETIME = re.compile(r"-?[0-9]{4,}-[0-9]{2}-[0-9]{2}T[0-9]{2}:[0-9]{2}:[0-9]{2}(\.[0-9]+)?(Z|[+-][0-9]{2}:[0-9]{2})?")
import io
import xml.etree.ElementTree as ET

PROV = "http://www.w3.org/ns/prov#"
XSD = "http://www.w3.org/2001/XMLSchema#"
XSD_NOHASH = "http://www.w3.org/2001/XMLSchema"
XSI = "http://www.w3.org/2001/XMLSchema-instance"
XMLNS = "http://www.w3.org/XML/1998/namespace"


class XmlSpecViolation(Exception):
    pass


# element local name -> (record kind, extra prov:type implied by a subtype element, ordered formal children)
ELEMENTS = {
    "entity": ("Entity", None, []),
    "activity": ("Activity", None, ["startTime", "endTime"]),
    "agent": ("Agent", None, []),
    "wasGeneratedBy": ("Generation", None, ["entity", "activity", "time"]),
    "used": ("Usage", None, ["activity", "entity", "time"]),
    "wasInformedBy": ("Communication", None, ["informed", "informant"]),
    "wasStartedBy": ("Start", None, ["activity", "trigger", "starter", "time"]),
    "wasEndedBy": ("End", None, ["activity", "trigger", "ender", "time"]),
    "wasInvalidatedBy": ("Invalidation", None, ["entity", "activity", "time"]),
    "wasDerivedFrom": ("Derivation", None, ["generatedEntity", "usedEntity", "activity", "generation", "usage"]),
    "wasAttributedTo": ("Attribution", None, ["entity", "agent"]),
    "wasAssociatedWith": ("Association", None, ["activity", "agent", "plan"]),
    "actedOnBehalfOf": ("Delegation", None, ["delegate", "responsible", "activity"]),
    "wasInfluencedBy": ("Influence", None, ["influencee", "influencer"]),
    "specializationOf": ("Specialization", None, ["specificEntity", "generalEntity"]),
    "alternateOf": ("Alternate", None, ["alternate1", "alternate2"]),
    "mentionOf": ("Mention", None, ["specificEntity", "generalEntity", "bundle"]),
    "hadMember": ("Membership", None, ["collection", "entity"]),
    # subtype elements
    "wasRevisionOf": ("Derivation", "Revision", ["generatedEntity", "usedEntity", "activity", "generation", "usage"]),
    "wasQuotedFrom": ("Derivation", "Quotation", ["generatedEntity", "usedEntity", "activity", "generation", "usage"]),
    "hadPrimarySource": ("Derivation", "PrimarySource", ["generatedEntity", "usedEntity", "activity", "generation", "usage"]),
    "person": ("Agent", "Person", []),
    "organization": ("Agent", "Organization", []),
    "softwareAgent": ("Agent", "SoftwareAgent", []),
    "plan": ("Entity", "Plan", []),
    "collection": ("Entity", "Collection", []),
    "emptyCollection": ("Entity", "EmptyCollection", []),
    "bundle": ("Entity", "Bundle", []),
}
TIME = ("time", "startTime", "endTime")
TAIL_ORDER = ["label", "location", "role", "type", "value"]
INT_TYPES = ("int", "long", "integer", "short", "byte", "nonNegativeInteger", "positiveInteger", "unsignedInt",
             "unsignedLong", "unsignedShort", "unsignedByte", "negativeInteger", "nonPositiveInteger")


def _parse_with_ns(text):
    """ElementTree parse that keeps the in-scope namespace map per element (needed to resolve QNames in content)"""
    events = ET.iterparse(io.BytesIO(text if isinstance(text, bytes) else text.encode("utf-8")),
                          events=("start", "start-ns", "end-ns"))
    stack = [{"xml": XMLNS}]
    pending = {}
    root = None
    nsmaps = {}
    depth_ns = []
    for ev, obj in events:
        if ev == "start-ns":
            pending[obj[0]] = obj[1]
        elif ev == "start":
            m = dict(stack[-1])
            m.update(pending)
            depth_ns.append(len(pending))
            pending = {}
            stack.append(m)
            nsmaps[obj] = m
            if root is None:
                root = obj
        elif ev == "end-ns":
            pass
    return root, nsmaps


def _split(tag):
    if tag.startswith("{"):
        uri, local = tag[1:].split("}", 1)
        return uri, local
    return None, tag


def _resolve(qname, nsmap, what):
    if qname is None:
        raise XmlSpecViolation("missing qualified name in %s" % what)
    if ":" in qname:
        p, l = qname.split(":", 1)
        if p not in nsmap:
            raise XmlSpecViolation("undeclared prefix %r in %s" % (p, what))
        u = nsmap[p]
    else:
        if "" not in nsmap:
            raise XmlSpecViolation("unprefixed QName %r without default namespace in %s" % (qname, what))
        u, l = nsmap[""], qname
    if u == XSD_NOHASH and what == "xsi:type":
        u = XSD  # the XML-Schema namespace has no '#'; PROV's xsd namespace has
    return u + l


def _time(s):
    if not RE_XSD_DATETIME.fullmatch(s.strip()):
        raise XmlSpecViolation("not an xsd:dateTime lexical form: %r" % (s,))
    t = datetime.datetime.fromisoformat(s.strip().replace("Z", "+00:00"))
    off = t.utcoffset()
    return ("datetime", t.replace(tzinfo=None).isoformat(), None if off is None else off.total_seconds())


def _value(el, nsmap):
    text = el.text if el.text is not None else ""
    lang = el.get("{%s}lang" % XMLNS)
    typ = el.get("{%s}type" % XSI)
    if lang is not None:
        return ("literal", text, PROV + "InternationalizedString", lang)
    if typ is None:
        return ("str", text)
    t = _resolve(typ, nsmap, "xsi:type")
    if t == XSD + "string":
        return ("str", text)
    if t == XSD + "QName":
        return ("qname", _resolve(text, nsmap, "xsd:QName value"))
    if t == XSD + "anyURI":
        return ("uri", text)
    if t == XSD + "boolean":
        if text not in ("true", "false", "1", "0"):
            raise XmlSpecViolation("invalid xsd:boolean %r" % text)
        return ("bool", text in ("true", "1"))
    for n in INT_TYPES:
        if t == XSD + n:
            return ("int", int(text))
    if t in (XSD + "double", XSD + "float", XSD + "decimal"):
        return ("float", repr(float(text.replace("INF", "inf"))))
    if t == XSD + "dateTime":
        return _time(text)
    return ("literal", text, t, None)


def _record(el, nsmaps):
    uri, local = _split(el.tag)
    kind, subtype, formal = ELEMENTS[local]
    nsmap = nsmaps[el]
    rid = el.get("{%s}id" % PROV)
    ident = _resolve(rid, nsmap, "prov:id") if rid is not None else None
    attrs = []
    stage = 0  # schema order: formal children in order, then label, location, role, type, value, then others
    order = formal + TAIL_ORDER
    last = -1
    for ch in el:
        curi, clocal = _split(ch.tag)
        cmap = nsmaps[ch]
        if curi == PROV and clocal in formal:
            pos = order.index(clocal)
            if pos < last:
                raise XmlSpecViolation("child prov:%s out of schema order in prov:%s" % (clocal, local))
            last = pos
            if clocal in TIME:
                attrs.append((PROV + clocal, _time(ch.text or "")))
            else:
                ref = ch.get("{%s}ref" % PROV)
                if ref is None:
                    raise XmlSpecViolation("prov:%s without prov:ref" % clocal)
                attrs.append((PROV + clocal, ("qname", _resolve(ref, cmap, "prov:ref"))))
            continue
        if curi == PROV and clocal in TAIL_ORDER:
            pos = order.index(clocal)
            if pos < last:
                raise XmlSpecViolation("child prov:%s out of schema order in prov:%s" % (clocal, local))
            last = pos
        elif curi == PROV:
            raise XmlSpecViolation("prov:%s is not allowed inside prov:%s" % (clocal, local))
        else:
            last = len(order)
        if curi is None:
            raise XmlSpecViolation("attribute element without namespace")
        attrs.append((curi + clocal, _value(ch, cmap)))
    etype = el.get("{%s}type" % XSI)
    if etype is not None:
        # PROV-XML: xsi:type on a record element asserts that prov:type
        attrs.append((PROV + "type", ("qname", _resolve(etype, nsmap, "xsi:type"))))
    if subtype is not None:
        attrs.append((PROV + "type", ("qname", PROV + subtype)))
    return (PROV + kind, ident, attrs)


def read(text):
    root, nsmaps = _parse_with_ns(text)
    uri, local = _split(root.tag)
    if uri != PROV or local != "document":
        raise XmlSpecViolation("root element is not prov:document")
    out = {"records": [], "bundles": []}
    for el in root:
        uri, local = _split(el.tag)
        if uri != PROV:
            raise XmlSpecViolation("non-PROV element at document level")
        if local == "bundleContent":
            bid = el.get("{%s}id" % PROV)
            recs = []
            for sub in el:
                suri, slocal = _split(sub.tag)
                if suri != PROV or slocal not in ELEMENTS:
                    raise XmlSpecViolation("unknown element in bundleContent")
                recs.append(_record(sub, nsmaps))
            out["bundles"].append((_resolve(bid, nsmaps[el], "bundle prov:id"), recs))
        elif local in ELEMENTS:
            out["records"].append(_record(el, nsmaps))
        elif local == "other":
            continue
        else:
            raise XmlSpecViolation("unknown element prov:%s" % local)
    return out
