"""Independent PROV-JSON reader written from the PROV-JSON specification (W3C member submission).

Shares no code with prov.  Input: the JSON tree (dict/list/scalars) - works on json.loads output and, in Stage A, on
the writer's container object with symbolic leaves (only ==, 'in', split(':',1) and isinstance are used; nothing
is hashed).  Output: the same description shape as oracles.strict.doc_desc, so both can be compared with doc_eq.
Raises JsonSpecViolation when the tree breaks a structural rule of the specification.
"""
import datetime
import re

RE_XSD_DATETIME = re.compile(r"-?[0-9]{4,}-[0-9]{2}-[0-9]{2}T[0-9]{2}:[0-9]{2}:[0-9]{2}(\.[0-9]+)?(Z|[+-][0-9]{2}:[0-9]{2})?")

PROV = "http://www.w3.org/ns/prov#"
XSD = "http://www.w3.org/2001/XMLSchema#"


class JsonSpecViolation(Exception):
    pass


KINDS = {
    "entity": ("Entity", []),
    "activity": ("Activity", ["prov:startTime", "prov:endTime"]),
    "agent": ("Agent", []),
    "wasGeneratedBy": ("Generation", ["prov:entity", "prov:activity", "prov:time"]),
    "used": ("Usage", ["prov:activity", "prov:entity", "prov:time"]),
    "wasInformedBy": ("Communication", ["prov:informed", "prov:informant"]),
    "wasStartedBy": ("Start", ["prov:activity", "prov:trigger", "prov:starter", "prov:time"]),
    "wasEndedBy": ("End", ["prov:activity", "prov:trigger", "prov:ender", "prov:time"]),
    "wasInvalidatedBy": ("Invalidation", ["prov:entity", "prov:activity", "prov:time"]),
    "wasDerivedFrom": ("Derivation", ["prov:generatedEntity", "prov:usedEntity", "prov:activity", "prov:generation", "prov:usage"]),
    "wasAttributedTo": ("Attribution", ["prov:entity", "prov:agent"]),
    "wasAssociatedWith": ("Association", ["prov:activity", "prov:agent", "prov:plan"]),
    "actedOnBehalfOf": ("Delegation", ["prov:delegate", "prov:responsible", "prov:activity"]),
    "wasInfluencedBy": ("Influence", ["prov:influencee", "prov:influencer"]),
    "specializationOf": ("Specialization", ["prov:specificEntity", "prov:generalEntity"]),
    "alternateOf": ("Alternate", ["prov:alternate1", "prov:alternate2"]),
    "mentionOf": ("Mention", ["prov:specificEntity", "prov:generalEntity", "prov:bundle"]),
    "hadMember": ("Membership", ["prov:collection", "prov:entity"]),
}
TIME_KEYS = ("prov:time", "prov:startTime", "prov:endTime")
INT_TYPES = ("int", "long", "integer", "short", "byte", "nonNegativeInteger", "positiveInteger", "unsignedInt",
             "unsignedLong", "unsignedShort", "unsignedByte", "negativeInteger", "nonPositiveInteger")
OPEN_PROV_KEYS = ("prov:type", "prov:label", "prov:value", "prov:location", "prov:role")


def _is_map(x):
    return hasattr(x, "items") and hasattr(x, "keys")


def _is_str(x):
    return isinstance(x, str)


def _get(m, key, default=None):
    for k in m.keys():
        if k == key:
            return m[k]
    return default


class _Scope:
    def __init__(self, prefixes, parent=None):
        self.prefixes = prefixes  # list of (prefix, uri); 'default' entry is the default namespace
        self.parent = parent

    def lookup(self, prefix):
        for p, u in self.prefixes:
            if p == prefix:
                return u
        if self.parent is not None:
            return self.parent.lookup(prefix)
        if prefix == "prov":
            return PROV
        if prefix == "xsd":
            return XSD
        return None

    def default(self):
        for p, u in self.prefixes:
            if p == "default":
                return u
        if self.parent is not None:
            return self.parent.default()
        return None

    def resolve(self, name):
        """qualified-name string -> URI"""
        if not _is_str(name):
            raise JsonSpecViolation("qualified name is not a string: %r" % (name,))
        if ":" in name:
            prefix, local = name.split(":", 1)
            uri = self.lookup(prefix)
            if uri is None:
                raise JsonSpecViolation("undeclared prefix in %r" % (name,))
            return uri + local
        d = self.default()
        if d is None:
            raise JsonSpecViolation("name without prefix but no default namespace: %r" % (name,))
        return d + name


def _time_desc(text):
    if not _is_str(text):
        raise JsonSpecViolation("time is not a string")
    if not RE_XSD_DATETIME.fullmatch(str(text)):
        raise JsonSpecViolation("not an xsd:dateTime lexical form: %r" % (text,))
    t = datetime.datetime.fromisoformat(str(text).replace("Z", "+00:00"))
    off = t.utcoffset()
    return ("datetime", t.replace(tzinfo=None).isoformat(), None if off is None else off.total_seconds())


def _value(v, scope):
    if _is_map(v):
        keys = [k for k in v.keys()]
        if not any(k == "$" for k in keys):
            raise JsonSpecViolation("typed value without '$'")
        for k in keys:
            if not (k == "$" or k == "type" or k == "lang"):
                raise JsonSpecViolation("unexpected key in a typed value")
        val = _get(v, "$")
        lang = _get(v, "lang")
        typ = _get(v, "type")
        if lang is not None:
            if typ is not None:
                raise JsonSpecViolation("typed value has both 'lang' and 'type'")
            return ("literal", val, PROV + "InternationalizedString", lang)
        if typ is None:
            raise JsonSpecViolation("typed value has neither 'type' nor 'lang'")
        turi = scope.resolve(typ)
        if turi == XSD + "anyURI":
            return ("uri", val)
        if turi == PROV + "QUALIFIED_NAME":
            return ("qname", scope.resolve(val))
        if turi == XSD + "string":
            return ("str", val)
        if turi == XSD + "boolean":
            if isinstance(val, bool):
                return ("bool", val)
            return ("bool", str(val) in ("true", "1"))
        for t in INT_TYPES:
            if turi == XSD + t:
                return ("int", val if isinstance(val, int) and not isinstance(val, bool) else int(val))
        if turi == XSD + "double" or turi == XSD + "float" or turi == XSD + "decimal":
            return ("float", repr(float(val)))
        if turi == XSD + "dateTime":
            return _time_desc(val)
        return ("literal", val if _is_str(val) else str(val), turi, None)
    if isinstance(v, bool):
        return ("bool", v)
    if isinstance(v, int):
        return ("int", v)
    if isinstance(v, float):
        return ("float", repr(v))
    if _is_str(v):
        return ("str", v)
    raise JsonSpecViolation("unsupported JSON value %r" % (v,))


def _record(kind_key, rid, obj, scope):
    kname, formal = KINDS[kind_key]
    if not _is_map(obj):
        raise JsonSpecViolation("record is not an object")
    if _is_str(rid) and rid.startswith("_:"):
        ident = None
    else:
        ident = scope.resolve(rid)
    attrs = []
    for key in obj.keys():
        val = obj[key]
        if any(key == f for f in formal):
            if isinstance(val, list):
                # the specification lets membership list several entities; anything else is single-valued
                if not (kind_key == "hadMember" and key == "prov:entity"):
                    if len(val) != 1:
                        raise JsonSpecViolation("formal attribute %s with %d values" % (key, len(val)))
                vals = list(val)
            else:
                vals = [val]
            for x in vals:
                if any(key == t for t in TIME_KEYS):
                    attrs.append((PROV + key[5:], _time_desc(x)))
                else:
                    attrs.append((PROV + key[5:], ("qname", scope.resolve(x))))
            continue
        if _is_str(key) and key.startswith("prov:") and not any(key == k for k in OPEN_PROV_KEYS):
            raise JsonSpecViolation("PROV attribute %s is not allowed on %s" % (key, kind_key))
        auri = scope.resolve(key)
        if isinstance(val, list):
            for x in val:
                attrs.append((auri, _value(x, scope)))
        else:
            attrs.append((auri, _value(val, scope)))
    return (PROV + kname, ident, attrs)


def _container(tree, parent_scope, top):
    if not _is_map(tree):
        raise JsonSpecViolation("container is not an object")
    prefixes = []
    pm = _get(tree, "prefix")
    if pm is not None:
        if not _is_map(pm):
            raise JsonSpecViolation("'prefix' is not an object")
        for p in pm.keys():
            prefixes.append((p, pm[p]))
    scope = _Scope(prefixes, parent_scope)
    records = []
    bundles = []
    for key in tree.keys():
        if key == "prefix":
            continue
        if key == "bundle":
            if not top:
                raise JsonSpecViolation("nested bundle")
            bm = tree[key]
            if not _is_map(bm):
                raise JsonSpecViolation("'bundle' is not an object")
            for bid in bm.keys():
                brecs, _ = _container(bm[bid], scope, False)
                bundles.append((scope.resolve(bid), brecs))
            continue
        if not any(key == k for k in KINDS):
            raise JsonSpecViolation("unknown top-level key %r" % (key,))
        km = tree[key]
        if not _is_map(km):
            raise JsonSpecViolation("record-kind value is not an object")
        for rid in km.keys():
            body = km[rid]
            for obj in (body if isinstance(body, list) else [body]):
                records.append(_record(key, rid, obj, scope))
    return records, bundles


def read(tree):
    """-> {'records': [...], 'bundles': [(id uri, [...])...]}"""
    records, bundles = _container(tree, None, True)
    return {"records": records, "bundles": bundles}
