"""Specification transducers folded over SlotStr slots (one z3 term each; decided by a single solver call)."""
import z3

from symprov.slotstr import run_reader


def _esc(x):
    return z3.If(x == ord("t"), 9, z3.If(x == ord("b"), 8, z3.If(x == ord("n"), 10, z3.If(x == ord("r"), 13,
           z3.If(x == ord("f"), 12, z3.If(x == 92, 92, z3.If(x == 34, 34, z3.If(x == 39, 39, -1))))))))


def provn_string_literal_denotes(lit_slots, src, space):
    """z3 Bool: `lit_slots` spell a well-formed PROV-N STRING_LITERAL (short or long form, W3C grammar) whose value is
    the fresh SlotStr `src`.  Streaming comparison against src through an array (no quantifiers)."""
    n = src.len_var
    C = z3.Array("C_%s" % space.uniq(), z3.IntSort(), z3.IntSort())
    for i, c in enumerate(src.chars):
        space.add(C[i] == c)

    def step(st, ch):
        q = ch == 34
        in_open = st["phase"] == 0
        open_more = z3.And(in_open, q, st["openq"] < 3)
        body = z3.Or(st["phase"] == 1, z3.And(in_open, z3.Not(open_more)))
        long = z3.If(in_open, st["openq"] == 3, st["long"])
        bad_open = z3.And(in_open, z3.Not(open_more), z3.Not(z3.Or(st["openq"] == 1, st["openq"] == 3)))
        after_bs = st["mode"] == 1
        is_bs = ch == 92
        dec = z3.If(after_bs, _esc(ch), ch)
        rawq = z3.And(z3.Not(after_bs), q)
        emit = z3.And(body, z3.Not(z3.And(z3.Not(after_bs), is_bs)), z3.Not(rawq))
        err = z3.And(body, z3.Or(z3.And(after_bs, _esc(ch) == -1),
                                 z3.And(z3.Not(after_bs), z3.Not(long), z3.Or(ch == 10, ch == 13))))
        pend = z3.If(z3.And(body, rawq), st["pend"] + 1, z3.If(body, 0, st["pend"]))
        flush_bad = z3.And(body, z3.Not(rawq), st["pend"] > 0, z3.Or(z3.Not(long), st["pend"] > 2))
        j = st["j"]
        j1 = z3.If(z3.And(body, z3.Not(rawq), st["pend"] >= 1), j + 1, j)
        m1 = z3.Implies(z3.And(body, z3.Not(rawq), st["pend"] >= 1), z3.And(j < n, C[j] == 34))
        j2 = z3.If(z3.And(body, z3.Not(rawq), st["pend"] >= 2), j1 + 1, j1)
        m2 = z3.Implies(z3.And(body, z3.Not(rawq), st["pend"] >= 2), z3.And(j1 < n, C[j1] == 34))
        m3 = z3.Implies(emit, z3.And(j2 < n, C[j2] == dec))
        j3 = z3.If(emit, j2 + 1, j2)
        return {"phase": z3.If(body, 1, 0), "openq": z3.If(open_more, st["openq"] + 1, st["openq"]), "long": long,
                "mode": z3.If(z3.And(body, z3.Not(after_bs), is_bs), 1, 0), "pend": pend, "j": j3,
                "ok": z3.And(st["ok"], z3.Not(bad_open), z3.Not(err), z3.Not(flush_bad), m1, m2, m3)}

    init = {"phase": z3.IntVal(0), "openq": z3.IntVal(0), "long": z3.BoolVal(False), "mode": z3.IntVal(0),
            "pend": z3.IntVal(0), "j": z3.IntVal(0), "ok": z3.BoolVal(True)}

    def final(st):
        empty_short = z3.And(st["phase"] == 0, st["openq"] == 2)
        closed = z3.And(st["phase"] == 1, st["mode"] == 0, z3.If(st["long"], st["pend"] == 3, st["pend"] == 1))
        return z3.And(st["ok"], z3.Or(z3.And(empty_short, n == 0), z3.And(closed, st["j"] == n)))

    return run_reader(lit_slots, step, init, final)
