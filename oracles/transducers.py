"""Specification transducers folded over SlotStr slots (one z3 term each; decided by a single solver call)."""
import z3

from symprov.slotstr import run_reader


def _esc(x):
    return z3.If(x == ord("t"), 9, z3.If(x == ord("b"), 8, z3.If(x == ord("n"), 10, z3.If(x == ord("r"), 13,
           z3.If(x == ord("f"), 12, z3.If(x == 92, 92, z3.If(x == 34, 34, z3.If(x == 39, 39, -1))))))))


def provn_string_literal_denotes(lit_slots, src, space):
    """z3 Bool: `lit_slots` spell a well-formed PROV-N STRING_LITERAL (short or long form, W3C grammar) whose value is
    the fresh SlotStr `src`.  Streaming comparison against src through an array (no quantifiers)."""
    n = src.len_var
    C = z3.Array("C_%s" % space.uniq(), z3.IntSort(), z3.IntSort())
    for i, c in enumerate(src.chars):
        space.add(C[i] == c)

    def step(st, ch):
        q = ch == 34
        in_open = st["phase"] == 0
        open_more = z3.And(in_open, q, st["openq"] < 3)
        body = z3.Or(st["phase"] == 1, z3.And(in_open, z3.Not(open_more)))
        long = z3.If(in_open, st["openq"] == 3, st["long"])
        bad_open = z3.And(in_open, z3.Not(open_more), z3.Not(z3.Or(st["openq"] == 1, st["openq"] == 3)))
        after_bs = st["mode"] == 1
        is_bs = ch == 92
        dec = z3.If(after_bs, _esc(ch), ch)
        rawq = z3.And(z3.Not(after_bs), q)
        emit = z3.And(body, z3.Not(z3.And(z3.Not(after_bs), is_bs)), z3.Not(rawq))
        err = z3.And(body, z3.Or(z3.And(after_bs, _esc(ch) == -1),
                                 z3.And(z3.Not(after_bs), z3.Not(long), z3.Or(ch == 10, ch == 13))))
        pend = z3.If(z3.And(body, rawq), st["pend"] + 1, z3.If(body, 0, st["pend"]))
        flush_bad = z3.And(body, z3.Not(rawq), st["pend"] > 0, z3.Or(z3.Not(long), st["pend"] > 2))
        j = st["j"]
        j1 = z3.If(z3.And(body, z3.Not(rawq), st["pend"] >= 1), j + 1, j)
        m1 = z3.Implies(z3.And(body, z3.Not(rawq), st["pend"] >= 1), z3.And(j < n, C[j] == 34))
        j2 = z3.If(z3.And(body, z3.Not(rawq), st["pend"] >= 2), j1 + 1, j1)
        m2 = z3.Implies(z3.And(body, z3.Not(rawq), st["pend"] >= 2), z3.And(j1 < n, C[j1] == 34))
        m3 = z3.Implies(emit, z3.And(j2 < n, C[j2] == dec))
        j3 = z3.If(emit, j2 + 1, j2)
        return {"phase": z3.If(body, 1, 0), "openq": z3.If(open_more, st["openq"] + 1, st["openq"]), "long": long,
                "mode": z3.If(z3.And(body, z3.Not(after_bs), is_bs), 1, 0), "pend": pend, "j": j3,
                "ok": z3.And(st["ok"], z3.Not(bad_open), z3.Not(err), z3.Not(flush_bad), m1, m2, m3)}

    init = {"phase": z3.IntVal(0), "openq": z3.IntVal(0), "long": z3.BoolVal(False), "mode": z3.IntVal(0),
            "pend": z3.IntVal(0), "j": z3.IntVal(0), "ok": z3.BoolVal(True)}

    def final(st):
        empty_short = z3.And(st["phase"] == 0, st["openq"] == 2)
        closed = z3.And(st["phase"] == 1, st["mode"] == 0, z3.If(st["long"], st["pend"] == 3, st["pend"] == 1))
        return z3.And(st["ok"], z3.Or(z3.And(empty_short, n == 0), z3.And(closed, st["j"] == n)))

    return run_reader(lit_slots, step, init, final)


# ------------------------------------------------------------------------------------------------------------------
# DOT tokens
# ------------------------------------------------------------------------------------------------------------------

def _stream_array(slots, space, tag):
    """array view of a guarded slot sequence: (Array C, length n) with C[position of slot k] == char k"""
    C = z3.Array("%s_%s" % (tag, space.uniq()), z3.IntSort(), z3.IntSort())
    pos = z3.IntVal(0)
    for g, c in slots:
        if z3.is_true(g):
            space.add(C[pos] == c)
        else:
            space.add(z3.Implies(g, C[pos] == c))
        pos = z3.simplify(pos + z3.If(g, 1, 0))
    return C, pos


def dot_quoted_string_denotes(tok_slots, src_slots, space):
    """z3 Bool: tok spells ONE complete DOT double-quoted string (Graphviz scanner: \\" is a quote, \\\\ a pair of
    backslashes, the first bare " ends the string) whose content denotes src either literally or after escString
    decoding of \\\\ -> \\ .  Other backslash sequences are left as they are (they cannot break the syntax)."""
    C, n = _stream_array(src_slots, space, "Q")

    def step(st, ch):
        opening = st["phase"] == 0
        body = st["phase"] == 1
        done = st["phase"] == 2
        bs = st["bs"] == 1
        is_q = ch == 34
        is_bs = ch == 92
        j = st["j"]
        # inside the body
        end_here = z3.And(body, z3.Not(bs), is_q)
        start_bs = z3.And(body, z3.Not(bs), is_bs)
        plain = z3.And(body, z3.Not(bs), z3.Not(is_q), z3.Not(is_bs))
        esc_q = z3.And(body, bs, is_q)          # \" -> "
        esc_bs = z3.And(body, bs, is_bs)        # \\ -> \  (escString level)
        esc_other = z3.And(body, bs, z3.Not(is_q), z3.Not(is_bs))  # \x : backslash stays, x stays
        # literal-level comparison (lexer output): \" -> ", everything else unchanged (\\ stays two chars)
        lit_emit1 = z3.Or(plain, esc_q)          # emits ch
        lit_ok = z3.And(
            z3.Implies(lit_emit1, z3.And(st["jl"] < n, C[st["jl"]] == ch)),
            z3.Implies(start_bs, z3.BoolVal(True)),
            # a backslash that is not followed by a quote is emitted when the NEXT char arrives
            z3.Implies(z3.Or(esc_bs, esc_other), z3.And(st["jl"] + 1 < n, C[st["jl"]] == 92, C[st["jl"] + 1] == ch)),
        )
        jl = z3.If(lit_emit1, st["jl"] + 1, z3.If(z3.Or(esc_bs, esc_other), st["jl"] + 2, st["jl"]))
        # escString-level comparison: \" -> ", \\ -> \, \x -> \x
        es_ok = z3.And(
            z3.Implies(z3.Or(plain, esc_q, esc_bs), z3.And(j < n, C[j] == ch)),
            z3.Implies(esc_other, z3.And(j + 1 < n, C[j] == 92, C[j + 1] == ch)),
        )
        j2 = z3.If(z3.Or(plain, esc_q, esc_bs), j + 1, z3.If(esc_other, j + 2, j))
        return {
            "phase": z3.If(opening, z3.If(is_q, 1, 3), z3.If(end_here, 2, z3.If(done, 3, st["phase"]))),
            "bs": z3.If(start_bs, 1, 0),
            "j": j2, "jl": jl,
            "es": z3.And(st["es"], es_ok), "li": z3.And(st["li"], lit_ok),
        }

    init = {"phase": z3.IntVal(0), "bs": z3.IntVal(0), "j": z3.IntVal(0), "jl": z3.IntVal(0),
            "es": z3.BoolVal(True), "li": z3.BoolVal(True)}

    def final(st):
        return z3.And(st["phase"] == 2, st["bs"] == 0,
                      z3.Or(z3.And(st["es"], st["j"] == n), z3.And(st["li"], st["jl"] == n)))

    return run_reader(tok_slots, step, init, final)


_ENTITIES = [("amp", 38), ("lt", 60), ("gt", 62), ("quot", 34), ("#x27", 39), ("#39", 39), ("apos", 39)]


def html_label_matches(tok_slots, skeleton, data_slots, space):
    """z3 Bool: tok spells a Graphviz HTML-like string '<' ... '>' whose STRUCTURE characters (tags without the
    contents of their quoted attribute values, and the outer delimiters) are exactly the constant `skeleton`, and whose
    DATA characters (text nodes and attribute-value contents, entities decoded) are exactly `data_slots`.
    Hence nothing a source string contains can add, remove or change markup."""
    D, nd = _stream_array(data_slots, space, "HD")
    sk = [ord(c) for c in skeleton]

    def sk_at(p):
        if z3.is_int_value(p):
            i = p.as_long()
            return z3.IntVal(sk[i] if 0 <= i < len(sk) else -1)
        out = z3.IntVal(-1)
        for i in range(len(sk) - 1, -1, -1):
            out = z3.If(p == i, sk[i], out)
        return out

    TEXT, TAG, ATTR = 0, 1, 2

    def step(st, ch):
        mode, ent, p, j = st["mode"], st["ent"], st["p"], st["j"]
        in_ent = ent > 0
        e = [st["e0"], st["e1"], st["e2"], st["e3"], st["e4"]]
        first = st["started"] == 0
        # entity handling (text or attribute value)
        data_mode = z3.Or(mode == TEXT, mode == ATTR)
        amp = z3.And(z3.Not(first), data_mode, z3.Not(in_ent), ch == 38)
        ent_char = z3.And(in_ent, ch != 59)
        ent_end = z3.And(in_ent, ch == 59)
        cnt = ent - 1  # chars accumulated so far
        decoded = z3.IntVal(-1)
        for name, code in _ENTITIES:
            m = z3.And(cnt == len(name), *[e[i] == ord(name[i]) for i in range(len(name))])
            decoded = z3.If(m, code, decoded)
        ent_err = z3.Or(z3.And(ent_char, cnt >= 5), z3.And(ent_end, decoded == -1))
        # structure characters
        lt = ch == 60
        gt = ch == 62
        qt = ch == 34
        text_lt = z3.And(z3.Not(first), mode == TEXT, z3.Not(in_ent), lt)          # opens a tag
        text_gt = z3.And(z3.Not(first), mode == TEXT, z3.Not(in_ent), gt)          # closes the whole label (must be last)
        tag_gt = z3.And(mode == TAG, gt)
        tag_qt = z3.And(mode == TAG, qt)
        attr_qt = z3.And(mode == ATTR, z3.Not(in_ent), qt)
        attr_bad = z3.And(mode == ATTR, z3.Not(in_ent), lt)
        tag_other = z3.And(mode == TAG, z3.Not(gt), z3.Not(qt))
        struct = z3.Or(first, text_lt, text_gt, tag_gt, tag_qt, attr_qt, tag_other)
        struct_ok = z3.Implies(struct, sk_at(p) == ch)
        p2 = z3.If(struct, p + 1, p)
        # data characters
        plain_data = z3.And(z3.Not(first), data_mode, z3.Not(in_ent), z3.Not(amp), z3.Not(struct), z3.Not(attr_bad))
        emit = z3.Or(plain_data, ent_end)
        val = z3.If(ent_end, decoded, ch)
        data_ok = z3.Implies(emit, z3.And(j < nd, D[j] == val))
        j2 = z3.If(emit, j + 1, j)
        mode2 = z3.If(first, TEXT, z3.If(text_lt, TAG, z3.If(tag_gt, TEXT, z3.If(tag_qt, ATTR, z3.If(attr_qt, TAG, mode)))))
        ent2 = z3.If(amp, 1, z3.If(ent_char, ent + 1, z3.If(ent_end, 0, ent)))
        ne = []
        for i in range(5):
            ne.append(z3.If(z3.And(ent_char, cnt == i), ch, z3.If(amp, 0, e[i])))
        return {
            "started": z3.IntVal(1), "mode": mode2, "ent": ent2, "p": p2, "j": j2,
            "e0": ne[0], "e1": ne[1], "e2": ne[2], "e3": ne[3], "e4": ne[4],
            "closed": z3.If(text_gt, 1, z3.If(st["closed"] == 1, 2, st["closed"])),
            "ok": z3.And(st["ok"], struct_ok, data_ok, z3.Not(ent_err), z3.Not(attr_bad),
                         z3.Implies(first, lt)),
        }

    init = {"started": z3.IntVal(0), "mode": z3.IntVal(TEXT), "ent": z3.IntVal(0), "p": z3.IntVal(0), "j": z3.IntVal(0),
            "e0": z3.IntVal(0), "e1": z3.IntVal(0), "e2": z3.IntVal(0), "e3": z3.IntVal(0), "e4": z3.IntVal(0),
            "closed": z3.IntVal(0), "ok": z3.BoolVal(True)}

    def final(st):
        return z3.And(st["ok"], st["closed"] == 1, st["mode"] == TEXT, st["ent"] == 0,
                      st["p"] == len(sk), st["j"] == nd)

    return run_reader(tok_slots, step, init, final)


# ---- plain-Python twins of the transducers (used for self-tests and for Stage B) -----------------------------------

def py_dot_quoted(tok):
    """-> (lexer-level content, escString-level content) or None when tok is not exactly one quoted string"""
    if len(tok) < 2 or tok[0] != '"':
        return None
    lit, es = [], []
    i = 1
    while i < len(tok):
        c = tok[i]
        if c == '"':
            return ("".join(lit), "".join(es)) if i == len(tok) - 1 else None
        if c == "\\":
            if i + 1 >= len(tok):
                return None
            d = tok[i + 1]
            if d == '"':
                lit.append('"'); es.append('"')
            elif d == "\\":
                lit.append("\\\\"); es.append("\\")
            else:
                lit.append("\\" + d); es.append("\\" + d)
            i += 2
            continue
        lit.append(c); es.append(c)
        i += 1
    return None


def py_html_label(tok):
    """-> (skeleton, data) or None when tok is not a well-formed HTML-like string of the supported shape"""
    ents = dict(_ENTITIES)
    if len(tok) < 2 or tok[0] != "<":
        return None
    sk, data = ["<"], []
    mode = 0
    i = 1
    while i < len(tok):
        c = tok[i]
        if mode in (0, 2) and c == "&":
            k = tok.find(";", i)
            if k < 0 or k - i - 1 > 5 or tok[i + 1:k] not in ents:
                return None
            data.append(chr(ents[tok[i + 1:k]]))
            i = k + 1
            continue
        if mode == 0:
            if c == "<":
                sk.append(c); mode = 1
            elif c == ">":
                sk.append(c)
                return ("".join(sk), "".join(data)) if i == len(tok) - 1 else None
            else:
                data.append(c)
        elif mode == 1:
            sk.append(c)
            if c == ">":
                mode = 0
            elif c == '"':
                mode = 2
        else:
            if c == '"':
                sk.append(c); mode = 1
            elif c == "<":
                return None
            else:
                data.append(c)
        i += 1
    return None
