"""Independent PROV-N reader: hand-written recursive-descent parser of the W3C PROV-N grammar (REC-prov-n-20130430),
plus the mentionOf extension of PROV-LINKS.  Strict: any text it cannot parse is a grammar violation.
Shares no code with prov.  Output has the shape of oracles.strict.doc_desc.
"""
import datetime
import re

PROV = "http://www.w3.org/ns/prov#"
XSD = "http://www.w3.org/2001/XMLSchema#"


class ProvNSyntaxError(Exception):
    pass


# (keyword, kind, has optional identifier ';', [formal attrs], number of mandatory positional args, optional group may be omitted)
EXPR = {
    "entity": ("Entity", False, [], 0),
    "agent": ("Agent", False, [], 0),
    "activity": ("Activity", False, ["startTime", "endTime"], 0),
    "wasGeneratedBy": ("Generation", True, ["entity", "activity", "time"], 1),
    "used": ("Usage", True, ["activity", "entity", "time"], 1),
    "wasInformedBy": ("Communication", True, ["informed", "informant"], 2),
    "wasStartedBy": ("Start", True, ["activity", "trigger", "starter", "time"], 1),
    "wasEndedBy": ("End", True, ["activity", "trigger", "ender", "time"], 1),
    "wasInvalidatedBy": ("Invalidation", True, ["entity", "activity", "time"], 1),
    "wasDerivedFrom": ("Derivation", True, ["generatedEntity", "usedEntity", "activity", "generation", "usage"], 2),
    "wasAttributedTo": ("Attribution", True, ["entity", "agent"], 2),
    "wasAssociatedWith": ("Association", True, ["activity", "agent", "plan"], 1),
    "actedOnBehalfOf": ("Delegation", True, ["delegate", "responsible", "activity"], 2),
    "wasInfluencedBy": ("Influence", True, ["influencee", "influencer"], 2),
    "specializationOf": ("Specialization", False, ["specificEntity", "generalEntity"], 2),
    "alternateOf": ("Alternate", False, ["alternate1", "alternate2"], 2),
    "hadMember": ("Membership", False, ["collection", "entity"], 2),
    "mentionOf": ("Mention", False, ["specificEntity", "generalEntity", "bundle"], 3),
}
NO_ATTRS = ("specializationOf", "alternateOf", "hadMember", "mentionOf")
TIME_ATTRS = ("time", "startTime", "endTime")

_PN_CHARS_BASE = "A-Za-z\u00C0-\u00D6\u00D8-\u00F6\u00F8-\u02FF\u0370-\u037D\u037F-\u1FFF\u200C-\u200D\u2070-\u218F\u2C00-\u2FEF\u3001-\uD7FF\uF900-\uFDCF\uFDF0-\uFFFD"
_PN_CHARS_U = _PN_CHARS_BASE + "_"
_PN_CHARS = _PN_CHARS_U + "\\-0-9\u00B7\u0300-\u036F\u203F-\u2040"
_OTHERS = r"/@~&+*?#$!"
_ESC = r"\\[=\'(),\-:;\[\]\.]"
_PERCENT = r"%[0-9A-Fa-f]{2}"
RE_PREFIX = re.compile("[%s](?:[%s.]*[%s])?" % (_PN_CHARS_BASE, _PN_CHARS, _PN_CHARS))
_LOCAL_FIRST = "(?:[%s0-9%s]|%s|%s)" % (_PN_CHARS_U, re.escape(_OTHERS), _PERCENT, _ESC)
_LOCAL_MID = "(?:[%s.%s]|%s|%s)" % (_PN_CHARS, re.escape(_OTHERS), _PERCENT, _ESC)
_LOCAL_LAST = "(?:[%s%s]|%s|%s)" % (_PN_CHARS, re.escape(_OTHERS), _PERCENT, _ESC)
RE_LOCAL = re.compile("%s(?:%s*%s)?" % (_LOCAL_FIRST, _LOCAL_MID, _LOCAL_LAST))
RE_INT = re.compile(r"-?[0-9]+")
RE_LANG = re.compile(r"@[a-zA-Z]+(?:-[a-zA-Z0-9]+)*")
RE_TIME = re.compile(r"-?[0-9]{4,}-[0-9]{2}-[0-9]{2}T[0-9]{2}:[0-9]{2}:[0-9]{2}(?:\.[0-9]+)?(?:Z|[+-][0-9]{2}:[0-9]{2})?")
RE_WS = re.compile(r"(?:[ \t\r\n]+|//[^\n]*|/\*.*?\*/)*", re.S)
ECHAR = {"t": "\t", "b": "\b", "n": "\n", "r": "\r", "f": "\f", "\\": "\\", '"': '"', "'": "'"}


class _Scope:
    def __init__(self, parent=None):
        self.prefixes = {}
        self.default = None
        self.parent = parent

    def lookup(self, p):
        if p in self.prefixes:
            return self.prefixes[p]
        if self.parent is not None:
            return self.parent.lookup(p)
        return {"prov": PROV, "xsd": XSD}.get(p)

    def get_default(self):
        if self.default is not None:
            return self.default
        return self.parent.get_default() if self.parent is not None else None


class Parser:
    def __init__(self, text):
        self.t = text
        self.i = 0

    def err(self, what):
        raise ProvNSyntaxError("%s at offset %d: %r" % (what, self.i, self.t[self.i:self.i + 40]))

    def ws(self):
        self.i = RE_WS.match(self.t, self.i).end()

    def lit(self, s):
        self.ws()
        if self.t.startswith(s, self.i):
            self.i += len(s)
            return True
        return False

    def expect(self, s):
        if not self.lit(s):
            self.err("expected %r" % s)

    def keyword(self, s):
        """match a keyword followed by a non-name character"""
        self.ws()
        if self.t.startswith(s, self.i):
            j = self.i + len(s)
            if j >= len(self.t) or not re.match("[%s:]" % _PN_CHARS, self.t[j]):
                self.i = j
                return True
        return False

    def rex(self, r):
        self.ws()
        m = r.match(self.t, self.i)
        if not m:
            return None
        self.i = m.end()
        return m.group(0)

    # -- tokens --------------------------------------------------------------------------------------------------
    def qualified_name(self, scope):
        """QUALIFIED_NAME ::= ( PN_PREFIX ':' )? PN_LOCAL | PN_PREFIX ':'   -> URI"""
        self.ws()
        start = self.i
        m = RE_PREFIX.match(self.t, self.i)
        if m and self.t.startswith(":", m.end()):
            prefix = m.group(0)
            self.i = m.end() + 1
            m2 = RE_LOCAL.match(self.t, self.i)
            local = ""
            if m2:
                local = m2.group(0)
                self.i = m2.end()
            uri = scope.lookup(prefix)
            if uri is None:
                self.i = start
                self.err("undeclared prefix %r" % prefix)
            return uri + self.unescape_local(local)
        m2 = RE_LOCAL.match(self.t, self.i)
        if not m2:
            self.err("expected a qualified name")
        self.i = m2.end()
        d = scope.get_default()
        if d is None:
            self.i = start
            self.err("name without prefix but no default namespace")
        return d + self.unescape_local(m2.group(0))

    @staticmethod
    def unescape_local(s):
        return re.sub(r"\\(.)", r"\1", s)

    def iri_ref(self):
        self.ws()
        m = re.compile(r"<([^<>\"{}|^`\\\x00-\x20]*)>").match(self.t, self.i)
        if not m:
            self.err("expected <IRI>")
        self.i = m.end()
        return m.group(1)

    def string_literal(self):
        """STRING_LITERAL2 | STRING_LITERAL_LONG2 -> denoted string"""
        self.ws()
        t = self.t
        if t.startswith('"""', self.i):
            # STRING_LITERAL_LONG2 ::= '"""' ( ( '"' | '""' )? ( [^"\\] | ECHAR ) )* '"""'
            j = self.i + 3
            out = []
            while True:
                if j >= len(t):
                    self.err("unterminated long string")
                q = 0
                while j + q < len(t) and t[j + q] == '"':
                    q += 1
                if q >= 3:
                    self.i = j + 3  # closing delimiter (further quotes are left to the caller and will not parse)
                    return "".join(out)
                if q:
                    out.append('"' * q)
                    j += q
                    if j >= len(t):
                        self.err("unterminated long string")
                c = t[j]
                if c == "\\":
                    if j + 1 >= len(t) or t[j + 1] not in ECHAR:
                        self.i = j
                        self.err("invalid escape in string")
                    out.append(ECHAR[t[j + 1]])
                    j += 2
                    continue
                out.append(c)
                j += 1
        if t.startswith('"', self.i):
            j = self.i + 1
            out = []
            while True:
                if j >= len(t):
                    self.err("unterminated string")
                c = t[j]
                if c == '"':
                    self.i = j + 1
                    return "".join(out)
                if c in "\n\r":
                    self.i = j
                    self.err("raw line break inside a single-line string literal")
                if c == "\\":
                    if j + 1 >= len(t) or t[j + 1] not in ECHAR:
                        self.i = j
                        self.err("invalid escape in string")
                    out.append(ECHAR[t[j + 1]])
                    j += 2
                    continue
                out.append(c)
                j += 1
        self.err("expected a string literal")

    def literal(self, scope):
        self.ws()
        if self.t.startswith('"', self.i):
            s = self.string_literal()
            if self.lit("%%"):
                dt = self.qualified_name(scope)
                return typed_value(s, dt, scope)
            lang = self.rex(RE_LANG) if self.t.startswith("@", self.i) else None
            if lang:
                return ("literal", s, PROV + "InternationalizedString", lang[1:])
            return ("str", s)
        if self.t.startswith("'", self.i):
            self.i += 1
            uri = self.qualified_name(scope)
            if not self.t.startswith("'", self.i):
                self.err("expected closing ' of a qualified name literal")
            self.i += 1
            return ("qname", uri)
        n = self.rex(RE_INT)
        if n is not None:
            return ("int", int(n))
        self.err("expected a literal")

    def time(self):
        s = self.rex(RE_TIME)
        if s is None:
            self.err("expected xsd:dateTime")
        return time_desc(s)

    # -- structure -----------------------------------------------------------------------------------------------
    def declarations(self, scope):
        if self.keyword("default"):
            scope.default = self.iri_ref()
        while self.keyword("prefix"):
            p = self.rex(RE_PREFIX)
            if p is None:
                self.err("expected a prefix")
            if p in scope.prefixes:
                self.err("prefix declared twice")
            iri = self.iri_ref()
            if p in ("prov", "xsd") and iri != {"prov": PROV, "xsd": XSD}[p]:
                self.err("the predeclared prefix %s is re-declared for another namespace" % p)
            scope.prefixes[p] = iri

    def attributes(self, scope, allowed):
        """optionalAttributeValuePairs ::= ( ',' '[' attributeValuePairs ']' )?   (the ',' is consumed by the caller)"""
        out = []
        self.expect("[")
        if not allowed:
            self.err("this expression takes no attributes")
        if self.lit("]"):
            return out
        while True:
            a = self.qualified_name(scope)
            self.expect("=")
            out.append((a, self.literal(scope)))
            if self.lit(","):
                continue
            self.expect("]")
            return out

    def expression(self, scope):
        self.ws()
        for kw in sorted(EXPR, key=len, reverse=True):
            if self.t.startswith(kw, self.i) and self.t[self.i + len(kw):self.i + len(kw) + 1] in ("(", " ", "\t", "\n"):
                save = self.i
                self.i += len(kw)
                if not self.lit("("):
                    self.i = save
                    continue
                return self.expr_body(kw, scope)
        return None

    def id_or_marker(self, scope):
        self.ws()
        if self.t.startswith("-", self.i) and not RE_INT.match(self.t, self.i):
            self.i += 1
            return None
        if self.t.startswith("-", self.i):
            self.err("unexpected number")
        return self.qualified_name(scope)

    def expr_body(self, kw, scope):
        kind, opt_id, formal, mandatory = EXPR[kw]
        ident = None
        attrs = []
        if kind in ("Entity", "Agent", "Activity"):
            ident = self.qualified_name(scope)
            vals = []
            if kind == "Activity":
                # ( ',' timeOrMarker ',' timeOrMarker )?
                save = self.i
                if self.lit(","):
                    self.ws()
                    if self.t.startswith("[", self.i):
                        self.i = save
                    else:
                        for n, f in enumerate(formal):
                            if n:
                                self.expect(",")
                            self.ws()
                            if self.lit("-"):
                                vals.append(None)
                            else:
                                vals.append(self.time())
            for f, v in zip(formal, vals):
                if v is not None:
                    attrs.append((PROV + f, v))
        else:
            if opt_id:
                # optionalIdentifier ::= ( identifierOrMarker ';' )?
                save = self.i
                try:
                    cand = self.id_or_marker(scope)
                    if self.lit(";"):
                        ident = cand
                    else:
                        self.i = save
                except ProvNSyntaxError:
                    self.i = save
            vals = []
            for n, f in enumerate(formal):
                if n >= mandatory and n > 0:
                    # the optional group is all-or-nothing
                    self.ws()
                    save = self.i
                    if not self.lit(","):
                        break
                    self.ws()
                    if self.t.startswith("[", self.i):
                        self.i = save
                        break
                elif n:
                    self.expect(",")
                if f in TIME_ATTRS:
                    self.ws()
                    if self.lit("-"):
                        vals.append(None)
                    else:
                        vals.append(self.time())
                elif n < mandatory:
                    self.ws()
                    if self.t.startswith("-", self.i):
                        self.err("'-' given for a mandatory argument of %s" % kw)
                    vals.append(("qname", self.qualified_name(scope)))
                else:
                    v = self.id_or_marker(scope)
                    vals.append(None if v is None else ("qname", v))
            if len(vals) not in (mandatory, len(formal)):
                self.err("optional arguments of %s must be given all or not at all" % kw)
            for f, v in zip(formal, vals):
                if v is not None:
                    attrs.append((PROV + f, v))
        if self.lit(","):
            attrs.extend(self.attributes(scope, kw not in NO_ATTRS))
        self.expect(")")
        return (PROV + kind, ident, attrs)

    def bundle(self, parent_scope):
        scope = _Scope(parent_scope)
        bid = self.qualified_name(parent_scope)
        self.declarations(scope)
        recs = []
        while True:
            e = self.expression(scope)
            if e is None:
                break
            recs.append(e)
        if not self.keyword("endBundle"):
            self.err("expected an expression or endBundle")
        return (bid, recs)

    def document(self):
        if not self.keyword("document"):
            self.err("expected 'document'")
        scope = _Scope()
        self.declarations(scope)
        recs = []
        bundles = []
        while True:
            e = self.expression(scope)
            if e is None:
                break
            recs.append(e)
        while self.keyword("bundle"):
            bundles.append(self.bundle(scope))
        if not self.keyword("endDocument"):
            self.err("expected an expression, a bundle or endDocument")
        self.ws()
        if self.i != len(self.t):
            self.err("trailing text")
        return {"records": recs, "bundles": bundles}


def time_desc(s):
    t = datetime.datetime.fromisoformat(s.replace("Z", "+00:00"))
    off = t.utcoffset()
    return ("datetime", t.replace(tzinfo=None).isoformat(), None if off is None else off.total_seconds())


INT_TYPES = ("int", "long", "integer", "short", "byte", "nonNegativeInteger", "positiveInteger", "unsignedInt",
             "unsignedLong", "unsignedShort", "unsignedByte", "negativeInteger", "nonPositiveInteger")


def typed_value(s, dt, scope):
    if dt == XSD + "string":
        return ("str", s)
    if dt == XSD + "anyURI":
        return ("uri", s)
    if dt == PROV + "QUALIFIED_NAME":  # a literal typed xsd:QName stays a typed literal
        p = Parser(s)
        return ("qname", p.qualified_name(scope))
    if dt == XSD + "boolean":
        if s not in ("true", "false", "1", "0"):
            raise ProvNSyntaxError("invalid xsd:boolean lexical form %r" % s)
        return ("bool", s in ("true", "1"))
    for t in INT_TYPES:
        if dt == XSD + t:
            if not re.fullmatch(r"[+-]?[0-9]+", s):
                raise ProvNSyntaxError("invalid integer lexical form %r" % s)
            return ("int", int(s))
    if dt in (XSD + "double", XSD + "float", XSD + "decimal"):
        if not re.fullmatch(r"(?:[+-]?(?:[0-9]+(?:\.[0-9]*)?|\.[0-9]+)(?:[eE][+-]?[0-9]+)?|[+-]?INF|NaN)", s):
            raise ProvNSyntaxError("invalid xsd:float lexical form %r" % s)
        return ("float", repr(float(s.replace("INF", "inf"))))
    if dt == XSD + "dateTime":
        if not RE_TIME.fullmatch(s):
            raise ProvNSyntaxError("invalid xsd:dateTime lexical form %r" % s)
        return time_desc(s)
    return ("literal", s, dt, None)


def read(text):
    return Parser(text).document()
