"""C06 - PROV-N output is well-formed and denotes the same document (independent reader)."""
from symprov.oblig import Obligation
from harness.common import stub_logging_str
from harness import docspace as DS

KERNELS = ["encoding_provn_value(str)", "Literal(s, ex:dt).provn_representation()", "Literal(s, lang).provn_representation()",
           "Literal(s, xsd:string) as attribute value"]


def _concrete_tail(slots, tail):
    """the last len(tail) slots are unconditional constants spelling `tail`"""
    import z3

    if len(slots) < len(tail):
        return False
    for (g, c), ch in zip(slots[-len(tail):], tail):
        if not (z3.is_true(g) and z3.is_int_value(c) and c.as_long() == ord(ch)):
            return False
    return True


def string_kernel(ctx):
    """for EVERY string of <= N code points the printed literal is a well-formed PROV-N STRING_LITERAL denoting it"""
    import prov.model as pm
    from prov.identifier import Namespace, QualifiedName

    N = ctx.params["n"]
    variant = ctx.params["variant"]
    s = ctx.slotstr("s", N)
    if variant == 0:
        text, tail = pm.encoding_provn_value(s), ""
    elif variant == 1:
        text, tail = pm.Literal(s, QualifiedName(Namespace("ex", "http://e/"), "dt")).provn_representation(), " %% ex:dt"
    elif variant == 2:
        text, tail = pm.Literal(s, None, "en").provn_representation(), "@en"
    else:
        from prov.constants import XSD_STRING
        text, tail = pm.Literal(s, XSD_STRING).provn_representation(), " %% xsd:string"
    if ctx.sym:
        from crosshair.libimpl.builtinslib import SymbolicBool
        from crosshair.statespace import context_statespace
        from crosshair.tracers import NoTracing
        from symprov.slotstr import SlotStr
        from oracles.transducers import provn_string_literal_denotes

        with NoTracing():
            if not isinstance(text, SlotStr):
                raise AssertionError("kernel output was concretised: %r" % type(text))
            ok_tail = _concrete_tail(text.slots, tail)
            body = text.slots[: len(text.slots) - len(tail)] if ok_tail else text.slots
            good = SymbolicBool(provn_string_literal_denotes(body, s, context_statespace()))
        ctx.check(ok_tail, "datatype / language tag is not appended outside the quotes")
        if ctx.params.get("xcheck"):
            res = ctx.cross_check(good, KERNELS[variant])
            ctx.check(not any(v == "sat" for v in res.values()), "solvers disagree on the kernel query (inconclusive): %s" % res)
        ctx.check(good, "the printed string literal is not a well-formed PROV-N STRING_LITERAL denoting the source string")
    else:
        from oracles.provn_reader import Parser, ProvNSyntaxError

        ctx.check(text.endswith(tail), "datatype / language tag is not appended outside the quotes")
        body = text[: len(text) - len(tail)] if tail else text
        p = Parser(body)
        try:
            val = p.string_literal()
            rest = body[p.i:]
        except ProvNSyntaxError as e:
            ctx.fail("the printed string literal is not a well-formed PROV-N STRING_LITERAL denoting the source string (%s)" % e.args[0])
        ctx.check(rest == "" and val == s,
                  "the printed string literal is not a well-formed PROV-N STRING_LITERAL denoting the source string")
    ctx.observe("variant", variant)


def _provn_check(ctx, d):
    from oracles import strict as S
    from oracles import provn_reader as R

    want = S.doc_desc(d)
    ctx.pin_all("PROV-N text is printed for one representative per path")
    text = ctx.pin(d.get_provn(), "PROV-N text handed to the independent reader")
    try:
        have = R.read(text)
    except R.ProvNSyntaxError as e:
        ctx.fail("PROV-N output does not parse under the W3C grammar: %s" % e.args[0])
    ctx.check(S.doc_eq(want, have), "PROV-N output denotes a different document")
    # the serializer front end gives the same text
    if not ctx.sym:
        ctx.check(d.serialize(format="provn") == text, "serialize(format='provn') differs from get_provn()")
    ctx.observe("content~", want)


def provn_values(ctx):
    stub_logging_str(ctx)
    P = ctx.params
    d = DS.values_doc(ctx, P["attr"], P["vk"], P["ns"], P["bundle"], strlen=P.get("strlen", 2), text_kind="any")
    _provn_check(ctx, d)


def provn_twin_bundles(ctx):
    stub_logging_str(ctx)
    _provn_check(ctx, DS.twin_bundles_doc(ctx))


REPRINT = ["add_asserted_type", "add_attributes", "set_time", "new record", "new namespace + record", "record into bundle",
           "attribute of a bundled record", "live attribute set"]


def provn_reprint(ctx):
    """history print -> mutate -> print: the second text denotes the document as it is then"""
    from harness.common import TIMES, new_doc

    stub_logging_str(ctx)
    m = ctx.params["mutation"]
    d = new_doc()
    e = d.entity("ex:e", {"ex:k": ctx.bigint("v")})
    a = d.activity("ex:a", TIMES[0] if ctx.bool("t0") else None)
    b = d.bundle("en:b")
    be = b.entity("ex:e", {"ex:k": 1})
    # first print through every public route that produces PROV-N
    first = (d.get_provn(), str(e), str(a), b.get_provn(), be.get_provn(), repr(e) if not ctx.sym else "")
    if m == 0:
        e.add_asserted_type(d.valid_qualified_name("ex:" + ctx.str("t", 2, 1, "name")))
    elif m == 1:
        e.add_attributes({"ex:j": ctx.bigint("w")})
    elif m == 2:
        a.set_time(TIMES[1], TIMES[2] if ctx.bool("end") else None)
    elif m == 3:
        d.usage("ex:a", "ex:e", None, None, {"ex:k": ctx.bigint("w")})
    elif m == 4:
        d.add_namespace("nw", "http://nw/" + ctx.str("u", 2, 0, "name"))
        d.agent("nw:ag")
    elif m == 5:
        b.activity("ex:a2", None, TIMES[1])
    elif m == 6:
        be.add_asserted_type(d.valid_qualified_name("ex:T"))
        be.add_attributes([("ex:k", ctx.bigint("w"))])
    else:
        e.get_attribute("ex:k").add(ctx.bigint("w"))
    _provn_check(ctx, d)
    ctx.observe("m", m)


def provn_structure(ctx):
    stub_logging_str(ctx)
    P = ctx.params
    _provn_check(ctx, DS.structure_doc(ctx, P["kind"], P.get("second"), P.get("bundle", False)))


def _kernel_shards(tier):
    n = 8 if tier == "quick" else 16
    out = [{"variant": v, "n": n} for v in range(len(KERNELS))]
    # second-opinion solvers (z3 4.8.12 and cvc5 1.0.3 binaries) re-decide the kernel query at a smaller N
    out += [{"variant": v, "n": 4 if tier == "quick" else 6, "xcheck": True} for v in range(len(KERNELS))]
    return out


def _value_shards(tier):
    from harness.c01 import _value_shards as vs

    return [dict(x, prefix_kind="name") for x in vs(tier)]


def _structure_shards(tier):
    from harness.c01 import _structure_shards as ss

    return [dict(x, bare_relations=True) for x in ss(tier)]


_ASSUME = ["specializationOf / alternateOf / hadMember / mentionOf carry no identifier and no extra attributes (PROV-N has no syntax for them)",
           "name local parts match [A-Za-z][A-Za-z0-9_]* (need no PROV-N escaping); prefixes are ASCII letters/digits",
           "floats and datetimes from catalogues; ints via the contract int(str(n)) == n"]

OBLIGATIONS = [
    Obligation(name="string_kernel", fn=string_kernel, shards=_kernel_shards,
               desc="for every string of <=N Unicode scalar values, the text produced by encoding_provn_value / Literal.provn_representation is accepted by a "
                    "transducer of the PROV-N STRING_LITERAL grammar (short and long form, ECHAR escapes) and denotes exactly the source string; suffixes stay outside the quotes",
               bounds={"quick": "N = 8 code points, 4 call sites", "thorough": "N = 16 code points, 4 call sites"},
               assumptions=["string = any sequence of Unicode scalar values (no lone surrogates)"],
               functions=["prov.model._ensure_multiline_string_triple_quoted", "prov.model.encoding_provn_value", "prov.model.Literal.provn_representation"],
               budget_s=(120, 600), per_path_s=(60, 300)),
    Obligation(name="provn_twin_bundles", fn=provn_twin_bundles, shards=[{}],
               desc="sibling bundles binding one prefix to different URIs (+ empty bundle): PROV-N parses and denotes the same document",
               bounds="2-3 bundles; URIs |u|<=3", assumptions=_ASSUME, functions=["prov.model.ProvBundle.get_provn"], shims=["PROV-N text is pinned before the independent reader runs"],
               best_verdict="PATH_COMPLETE", budget_s=(150, 600), per_path_s=(30, 60)),
    Obligation(name="provn_reprint", fn=provn_reprint, shards=[{"mutation": i} for i in range(len(REPRINT))],
               desc="history print -> mutate -> print: after the document, its records and its bundle have been printed once (get_provn, str), one in-place "
                    "modification (add_asserted_type, add_attributes, set_time, new record, new namespace, record into the bundle, bundled record, live set) "
                    "is made and the text printed then parses and denotes the document as it is then",
               bounds="document of entity + activity + bundle(entity); one modification with symbolic ints / |local|<=2", assumptions=_ASSUME,
               functions=["prov.model.ProvBundle.get_provn", "prov.model.ProvRecord.get_provn/__str__/add_asserted_type/add_attributes", "prov.model.ProvActivity.set_time"],
               shims=["PROV-N text is pinned before the independent reader runs"], best_verdict="PATH_COMPLETE", budget_s=(100, 300), per_path_s=(30, 60)),
    Obligation(name="provn_values", fn=provn_values, shards=_value_shards,
               desc="get_provn() of one entity with one attribute (6 name classes x 15 value kinds, 5 namespace modes, document/bundle) parses under the W3C grammar "
                    "with an independent recursive-descent parser and denotes the same strict content",
               bounds="as C01.values; text concretised (one solver-chosen representative per path) before parsing",
               assumptions=_ASSUME, functions=["prov.model.ProvRecord.get_provn", "prov.model.ProvBundle.get_provn", "prov.model.encoding_provn_value",
                                               "prov.model.Literal.provn_representation", "prov.identifier.QualifiedName.provn_representation"],
               shims=["PROV-N text is pinned before the independent reader runs"], best_verdict="PATH_COMPLETE",
               budget_s=(150, 600), per_path_s=(30, 60)),
    Obligation(name="provn_structure", fn=provn_structure, shards=_structure_shards,
               desc="same for the 18 record kinds x presence masks ('-' exactly for absent optional arguments) x identified (';') / anonymous x repeated identifiers, documents and bundles",
               bounds="as C01.structure", assumptions=_ASSUME, functions=["prov.model.ProvRecord.get_provn", "prov.model.ProvBundle.get_provn"],
               shims=["PROV-N text is pinned before the independent reader runs"], best_verdict="PATH_COMPLETE",
               budget_s=(150, 600), per_path_s=(30, 60)),
]
