"""C17 - writing to a file path is exact and all-or-nothing."""
import os
import shutil
import tempfile

from symprov.oblig import Obligation
from harness.common import EX, TIMES, new_doc, stub_logging_str

FORMATS = ["json", "provn", "xml", "rdf"]
FAULTS = ["none", "write#1", "write#2", "write#3", "flush/close", "final move", "write#2 (KeyboardInterrupt)", "final move (KeyboardInterrupt)"]
PRELOAD = ("prov.model", "prov.serializers.provjson", "prov.serializers.provn", "prov.serializers.provxml", "prov.serializers.provrdf")


CATALOGUE = ["Q3%20report.json", "caf%C3%A9.json", "%41", "100%.json", "a b.json", "é中.json", "x#y.json", "q?z=1.json", "a;b.json", "c:d.json",
             "file.tmp", "~tilde", "-dash", "name.with.many.dots.json", "%2e%2e", "trailing.", "UPPER.JSON", "prov.json.tmp"]


class InjectedFault(OSError):
    pass


class InjectedInterrupt(KeyboardInterrupt):
    """a failure that is not an Exception subclass (Ctrl-C / SystemExit while writing)"""


def _raise(state, msg):
    raise (InjectedInterrupt if state.get("interrupt") else InjectedFault)(msg)


# --------------------------------------------------------------------------------------------------------------------
# Stage A: in-memory stand-ins for tempfile / os / shutil so that serialize(destination=<symbolic name>) runs
# symbolically and every branch of its name handling (urlparse ...) is decided by the solver
# --------------------------------------------------------------------------------------------------------------------
class _MemStream:
    def __init__(self, fs, name):
        self.fs, self.name = fs, name
        fs.files[name] = b""

    def write(self, data):
        self.fs.writes += 1
        return len(data)

    def close(self):
        pass

    def flush(self):
        pass

    def __enter__(self):
        return self

    def __exit__(self, *a):
        return False


class _MemFS:
    def __init__(self, ctx):
        self.ctx = ctx
        self.files = {}
        self.writes = 0
        self.targets = []

    def pin(self, p):
        return self.ctx.pin(p, "file name reaches the operating system")


class _Unmodelled(Exception):
    pass


def _mk_stubs(fs):
    class Path:
        @staticmethod
        def dirname(p):
            p = fs.pin(p)
            return os.path.dirname(p)

        @staticmethod
        def abspath(p):
            p = fs.pin(p)
            return "/scratch/" + p if not p.startswith("/") else p

        @staticmethod
        def basename(p):
            return os.path.basename(fs.pin(p))

        @staticmethod
        def join(*a):
            return os.path.join(*[fs.pin(x) for x in a])

        @staticmethod
        def exists(p):
            return fs.pin(p) in fs.files

        def __getattr__(self, k):
            raise _Unmodelled("os.path." + k)

    class OS:
        path = Path()

        @staticmethod
        def fdopen(fd, mode="r", *a, **kw):
            return _MemStream(fs, fd)

        @staticmethod
        def remove(p):
            fs.files.pop(fs.pin(p), None)

        unlink = remove

        @staticmethod
        def replace(a, b):
            fs.targets.append(fs.pin(b))

        rename = replace

        @staticmethod
        def fspath(p):
            return fs.pin(p)

        @staticmethod
        def getcwd():
            return "/scratch"

        @staticmethod
        def close(fd):
            pass

        def __getattr__(self, k):
            raise _Unmodelled("os." + k)

    class Tempfile:
        @staticmethod
        def mkstemp(suffix=None, prefix=None, dir=None, text=False):
            name = "tmp%d" % (len(fs.files) + 1)
            fs.files[name] = b""
            return name, ((fs.pin(dir) + "/") if dir else "/tmp/") + name

        def __getattr__(self, k):
            raise _Unmodelled("tempfile." + k)

    class Shutil:
        @staticmethod
        def move(a, b):
            fs.targets.append(fs.pin(b))

        copy = copyfile = copy2 = move

        def __getattr__(self, k):
            raise _Unmodelled("shutil." + k)

    return OS(), Tempfile(), Shutil()


def _doc():
    d = new_doc(second_prefix=False)
    d.entity("ex:e1", {"ex:k": "vé"})
    d.activity("ex:a1", TIMES[0])
    d.wasGeneratedBy("ex:e1", "ex:a1")
    return d


# --------------------------------------------------------------------------------------------------------------------
# Stage B: the real file system in a scratch directory, with fault injection at stream writes and at the final move
# --------------------------------------------------------------------------------------------------------------------
class _FaultyStream:
    """buffered writer over the real file: data reach the file only at flush/close (as with io.BufferedWriter for
    small documents), so a failure at flush/close means NOTHING was written"""

    def __init__(self, real, state):
        self._r, self._s = real, state
        self._buf = []
        self._closed = False

    def write(self, data):
        self._s["writes"] += 1
        if self._s["fault"] == "write#%d" % self._s["writes"]:
            _raise(self._s, "injected failure at write #%d" % self._s["writes"])
        self._buf.append(data)
        return len(data)

    def flush(self):
        if self._s["fault"] == "flush/close":
            self._buf = []
            _raise(self._s, "injected failure at flush/close (e.g. disk full): buffered data lost")
        for d in self._buf:
            self._r.write(d)
        self._buf = []
        self._r.flush()

    def close(self):
        if self._closed:
            return
        self._closed = True
        try:
            self.flush()
        finally:
            self._r.close()

    def __getattr__(self, k):
        return getattr(self._r, k)

    def __enter__(self):
        return self

    def __exit__(self, *a):
        self.close()
        return False


class _Proxy:
    def __init__(self, real, **over):
        self.__dict__["_real"] = real
        self.__dict__.update(over)

    def __getattr__(self, k):
        return getattr(self._real, k)


def _same_dir(a, b):
    return os.path.dirname(os.path.abspath(a)) == os.path.dirname(os.path.abspath(b))


def _run_real(ctx, name, fmt, fault, preexisting):
    import prov.model as pm

    scratch = tempfile.mkdtemp(prefix="c17_")
    othertmp = tempfile.mkdtemp(prefix="c17tmp_")
    cwd = os.getcwd()
    state = {"writes": 0, "fault": fault.split(" (")[0], "interrupt": fault.endswith("(KeyboardInterrupt)")}
    d = _doc()
    expected = d.serialize(format=fmt)
    old = b"PREVIOUS CONTENT\n" * 3

    def fdopen(fd, mode="r", *a, **kw):
        f = os.fdopen(fd, mode, *a, **kw)
        return _FaultyStream(f, state) if ("w" in mode or "a" in mode) else f

    def opener(path, mode="r", *a, **kw):
        f = open(path, mode, *a, **kw)
        return _FaultyStream(f, state) if ("w" in mode or "a" in mode or "+" in mode) else f

    def atomic(fn):
        def w(src, dst, *a, **kw):
            if state["fault"] == "final move":
                _raise(state, "injected failure at the final move (atomic rename: nothing happened)")
            if not _same_dir(src, dst):
                raise OSError(18, "Invalid cross-device link (the default temp directory is modelled as another device)")
            return fn(src, dst, *a, **kw)
        return w

    def copying(fn):
        def w(src, dst, *a, **kw):
            if state["fault"] == "final move":
                if _same_dir(src, dst) and fn is shutil.move:
                    _raise(state, "injected failure at the final move (same directory: rename, nothing happened)")
                # copy across devices interrupted half way: the destination is left truncated
                with open(src, "rb") as f:
                    data = f.read()
                with open(dst, "wb") as g:
                    g.write(data[: len(data) // 2])
                _raise(state, "injected failure in the middle of a non-atomic copy to the destination")
            return fn(src, dst, *a, **kw)
        return w

    os_proxy = _Proxy(os, fdopen=fdopen, replace=atomic(os.replace), rename=atomic(os.rename))
    sh_proxy = _Proxy(shutil, move=copying(shutil.move), copy=copying(shutil.copy), copyfile=copying(shutil.copyfile),
                      copy2=copying(shutil.copy2))
    saved = (pm.os, pm.shutil, tempfile.tempdir, pm.__dict__.get("open"))
    try:
        os.chdir(scratch)
        if preexisting:
            with open(name, "wb") as f:
                f.write(old)
        siblings = {}
        for sib in (name + ".tmp", name + ".bak", name + "~", "tmp" + name, "." + name + ".swp"):
            if len(sib.encode("utf-8")) < 200 and sib != name:
                with open(sib, "wb") as f:
                    f.write(b"sibling " + sib.encode("utf-8"))
                siblings[sib] = b"sibling " + sib.encode("utf-8")
        tempfile.tempdir = othertmp
        pm.os, pm.shutil = os_proxy, sh_proxy
        pm.open = opener
        raised = None
        try:
            d.serialize(destination=name, format=fmt)
        except (InjectedFault, InjectedInterrupt) as e:
            raised = e
        finally:
            pm.os, pm.shutil, tempfile.tempdir = saved[0], saved[1], saved[2]
            if saved[3] is None:
                pm.__dict__.pop("open", None)
            else:
                pm.open = saved[3]
        for sib, data in siblings.items():
            ok = os.path.exists(os.path.join(scratch, sib))
            if ok:
                with open(os.path.join(scratch, sib), "rb") as f:
                    ok = f.read() == data
            ctx.check(ok, "serialize(destination=%r) modified or removed the unrelated file %r" % (name, sib))
        listing = sorted(x for x in os.listdir(scratch) if x not in siblings)
        content = None
        if os.path.exists(os.path.join(scratch, name)):
            with open(os.path.join(scratch, name), "rb") as f:
                content = f.read()
        leftovers = sorted(os.listdir(othertmp))
        faulted = raised is not None
        if not faulted:
            ctx.check(listing == [name], "serialize(destination=%r) created %r in the target directory" % (name, listing))
            ctx.check(content is not None, "the named file was not written")
            if fmt == "xml":
                from prov.model import ProvDocument
                ok = ProvDocument.deserialize(content=content.decode("utf-8"), format="xml") == d
            elif fmt == "rdf":
                ok = len(content) > 0 and b"e1" in content
            else:
                ok = content == expected.encode("utf-8")
            ctx.check(ok, "the named file does not hold the complete serialisation")
            ctx.check(leftovers == [], "temporary files left behind after a successful write: %r" % leftovers)
        else:
            want = old if preexisting else None
            ctx.check(content == want, "after a failure (%s) the named file %s instead of keeping its previous state"
                      % (raised, "is truncated / partially written" if content is not None else "disappeared"))
            others = [x for x in listing if x != name]
            ctx.check(others == [], "after a failure (%s: %s) other files were left next to the destination: %r" % (type(raised).__name__, raised, others))
            ctx.check(leftovers == [], "after a failure temporary files were left in the temp directory: %r" % leftovers)
    finally:
        os.chdir(cwd)
        shutil.rmtree(scratch, ignore_errors=True)
        shutil.rmtree(othertmp, ignore_errors=True)


def write_to_path(ctx):
    import prov.model as pm

    stub_logging_str(ctx)
    N = ctx.params["n"]
    name = ctx.str("name", N, 1, "any")
    # a local file name in the current directory: no '/', no NUL, not '.' or '..', no surrogates
    ctx.assume("/" not in name and "\x00" not in name and name != "." and name != "..")
    first = ctx.params.get("first")
    if first is not None:
        # shard by the class of the first character (the scheme / control-character logic looks at it first)
        c0 = name[0]
        cls = 0 if c0 <= " " else (1 if (c0 < "\x7f" and c0.isalpha()) else (2 if c0 < "\x7f" else 3))
        ctx.assume(cls == first)
    if ctx.sym:
        import urllib.parse as up

        fs = _MemFS(ctx)
        o, t, s = _mk_stubs(fs)
        saved = (pm.os, pm.tempfile, pm.shutil, up.urlsplit)
        pm.os, pm.tempfile, pm.shutil = o, t, s
        if hasattr(up.urlsplit, "__wrapped__"):
            up.urlsplit = up.urlsplit.__wrapped__  # stub: bypass the lru_cache (it hashes its argument)
        try:
            try:
                _doc().serialize(destination=name, format="provn")
            except _Unmodelled as e:
                ctx.note("unmodelled OS call in Stage A: %s" % e)
            except Exception as e:
                ctx.note("exception in Stage A stub run: %s" % type(e).__name__)
        finally:
            pm.os, pm.tempfile, pm.shutil, up.urlsplit = saved
        ctx.pin_all("file name reaches the operating system")
        ctx.checks += 1
    else:
        try:
            name.encode("utf-8")
        except UnicodeEncodeError:
            return
        names = [name]
        if ctx.params.get("catalogue"):
            names = CATALOGUE  # names no branch of the code singles out (the solver has no reason to produce them)
        for nm in names:
            for fmt in FORMATS:
                for fault in FAULTS:
                    for pre in (False, True):
                        _run_real(ctx, nm, fmt, fault, pre)
    ctx.observe("n", len(FORMATS) * len(FAULTS) * 2)


def _shards(tier):
    n = 3 if tier == "quick" else 4
    return [{"first": f, "n": n} for f in range(4)] + [{"first": 1, "n": 1, "catalogue": True}]


OBLIGATIONS = [
    Obligation(name="write_to_path", fn=write_to_path, shards=_shards,
               desc="serialize(destination=<file name>): Stage A runs the real method with a SYMBOLIC name over in-memory stand-ins for tempfile/os/shutil, so the solver "
                    "produces one name per branch of the name handling (urlparse: scheme ':', '#', '?', ';', leading control characters ...) x fault point x pre-existing file; "
                    "Stage B replays each witness on the real file system in a scratch directory with a failure injected at the k-th stream write or at the final move, and checks: "
                    "exactly the named file holds the complete serialisation and nothing else was created; after a failure the named file keeps its previous bytes or stays absent",
               bounds={"quick": "file names of 1-3 code points (no '/', NUL, '.', '..'): one witness per path of the name handling; each witness x 4 formats x 7 fault points (5 raising OSError, 2 raising KeyboardInterrupt) x with/without pre-existing file on the real file system",
                       "thorough": "file names of 1-4 code points"},
               assumptions=["the system default temp directory is another device than the destination directory (a copy across devices is not atomic; rename across devices fails with EXDEV)",
                            "a failure during an atomic rename leaves both files untouched", "stub: urllib.parse.urlsplit's lru_cache is bypassed in Stage A"],
               functions=["prov.model.ProvDocument.serialize", "urllib.parse.urlparse/urlsplit/_splitparams (stdlib, traced)"],
               shims=["Stage A: tempfile/os/shutil replaced by in-memory stand-ins (exploration only, no verdict); Stage B: real file system + fault-injecting proxies for os.fdopen/open/os.replace/os.rename/shutil.move/copy*"],
               best_verdict="PATH_COMPLETE", budget_s=(200, 900), per_path_s=(30, 60)),
]
