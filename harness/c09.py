"""C09 - flattened(), update() and add_bundle() conserve records."""
from symprov.oblig import Obligation
from harness.common import stub_logging_str

OPS = ["flattened", "update(other)", "add_bundle(other's bundle)", "add_bundle(other document, id)", "bundle(id)",
       "add_bundle(document with bundles)", "add_bundle(bundle without id)"]


def _side(ctx, tag, with_bundle, U, hasdef=None, bmode=None):
    """a document with symbolic default namespace (optional), prefix p -> symbolic URI, records named through both,
    and optionally a bundle (symbolic identifier local part) with its own default namespace and prefix p -> other URI"""
    from prov.model import ProvDocument

    d = ProvDocument()
    d.add_namespace("en", "http://n/")
    if tag == "d":
        # the first document's URIs are fixed short strings; the other document's are symbolic and may coincide
        fixed = {"dpu": "x:p", "ddu": "x:d", "dbdu": "x:b", "dbpu": "x:q"}

        class _C:
            def str(self, name, *a):
                return fixed[name]

            bool = ctx.bool
            choose = ctx.choose
        ctx_u = _C()
    else:
        ctx_u = ctx
    pu = ctx_u.str(tag + "pu", U, 2, "uri")
    d.add_namespace("p", pu)
    has_default = ctx.bool(tag + "hasdef") if hasdef is None else hasdef
    if has_default:
        d.set_default_namespace(ctx_u.str(tag + "du", U, 2, "uri"))
        # prov:activity is a formal attribute of OTHER kinds: on an entity it is an ordinary extra attribute
        d.entity("e1", {"p:k": 1, "prov:activity": "en:act"})
        d.usage("en:x", "e1")
    else:
        d.entity("p:e1", {"p:k": 1, "prov:activity": "en:act"})
        d.usage("en:x", "p:e1", None, None, {"prov:plan": "en:pl"})
    if with_bundle:
        b = d.bundle("en:" + ctx.str(tag + "bid", 1, 1, "name"))
        mode = ctx.choose(tag + "bmode", 4) if bmode is None else bmode
        if mode == 0:  # bundle with its own default namespace
            b.set_default_namespace(ctx_u.str(tag + "bdu", U, 2, "uri"))
            b.entity("e1", {"p:k": 2})
        elif mode == 1:  # bundle re-declares prefix p for another URI (clashing prefix)
            b.add_namespace("p", ctx_u.str(tag + "bpu", U, 2, "uri"))
            b.entity("p:e1", {"p:k": 2})
        elif mode == 2:  # bundle inherits everything from the document
            b.entity("p:e1", {"en:k": 2, "prov:entity": "en:other"})
        # mode 3: the bundle stays empty
    return d


def _all_records(desc):
    out = list(desc["records"])
    for bid, recs in desc["bundles"]:
        out.extend(recs)
    return out


def _bundle_recs(desc, bid):
    for b, recs in desc["bundles"]:
        if b == bid:
            return recs
    return None


def conserve(ctx):
    from prov.model import ProvBundle, ProvDocument, ProvException
    from oracles import strict as S
    from harness.c12 import exact_eq

    stub_logging_str(ctx)
    P = ctx.params
    U = 3 if P["tier"] == "quick" else 4
    d = _side(ctx, "d", P["dbundle"], U, P.get("dhasdef"), P.get("dbmode"))
    o = _side(ctx, "o", P["obundle"], U, P.get("ohasdef"), P.get("obmode"))
    for step, op in enumerate(P["ops"]):
        dd = S.doc_desc(d)
        od = S.doc_desc(o)
        ons = S.doc_ns_desc(o)
        dns = S.doc_ns_desc(d)
        if op == 0:
            f = d.flattened()
            fd = S.doc_desc(f)
            ctx.check(len(fd["bundles"]) == 0, "flattened() returned a document with bundles")
            ctx.check(S.records_eq(fd["records"], _all_records(dd)),
                      "flattened() does not hold exactly the document's own records plus all records of its bundles")
            ctx.check(exact_eq(dd, S.doc_desc(d)) and exact_eq(dns, S.doc_ns_desc(d)), "flattened() changed its source")
            d = f if f is not d else d
        elif op == 1:
            d.update(o)
            nd = S.doc_desc(d)
            ctx.check(S.records_eq(nd["records"], dd["records"] + od["records"]),
                      "update(): top-level records are not exactly the former records plus the other document's")
            # bundles: union of identifiers, same-named bundles merged record-wise
            ids = []
            for bid, _ in dd["bundles"] + od["bundles"]:
                if not any(bid == x for x in ids):
                    ids.append(bid)
            ctx.check(len(nd["bundles"]) == len(ids), "update(): wrong number of bundles afterwards")
            for bid in ids:
                want = (_bundle_recs(dd, bid) or []) + (_bundle_recs(od, bid) or [])
                have = _bundle_recs(nd, bid)
                ctx.check(have is not None, "update(): a bundle of the other document is missing")
                ctx.check(S.records_eq(have, want), "update(): bundle records are not the former plus the other's")
        elif op in (2, 3, 5, 6):
            if op == 2:
                obs = [b for b in o.bundles]
                ctx.assume(len(obs) > 0)
                arg, ident = obs[0], None
                arg_recs = S.bundle_desc(arg)
                want_id = arg.identifier.uri
                refuse = any(want_id == bid for bid, _ in dd["bundles"])
            elif op == 3:
                arg = o
                ident = "en:" + ctx.str("abid", 1, 1, "name")
                arg_recs = od["records"]
                want_id = "http://n/" + ident[3:]
                refuse = o.has_bundles() or any(want_id == bid for bid, _ in dd["bundles"])
            elif op == 5:
                arg = ProvDocument()
                arg.add_namespace("en", "http://n/")
                arg.bundle("en:inner").entity("en:e")
                ident, arg_recs, want_id, refuse = "en:zz", [], None, True
            else:
                arg = ProvBundle()
                arg.add_namespace("en", "http://n/")
                arg.entity("en:e")
                ident, arg_recs, want_id, refuse = None, [], None, True
            try:
                d.add_bundle(arg, ident)
                raised = False
            except ProvException:
                raised = True
            nd = S.doc_desc(d)
            if refuse:
                ctx.check(raised, "add_bundle accepted a duplicate / missing identifier or a document with bundles")
                ctx.check(exact_eq(dd, nd), "a refused add_bundle changed the document's content")
                ctx.check(len([b for b in d.bundles]) == len(dd["bundles"]), "a refused add_bundle changed the bundle set")
            else:
                ctx.check(not raised, "add_bundle refused a valid bundle")
                ctx.check(S.records_eq(nd["records"], dd["records"]), "add_bundle changed the top-level records")
                ctx.check(len(nd["bundles"]) == len(dd["bundles"]) + 1, "add_bundle did not add exactly one bundle")
                have = _bundle_recs(nd, want_id)
                ctx.check(have is not None, "add_bundle attached the bundle under another identifier")
                ctx.check(S.records_eq(have, arg_recs), "the attached bundle does not hold exactly the argument's records")
                for bid, recs in dd["bundles"]:
                    ctx.check(S.records_eq(_bundle_recs(nd, bid), recs), "add_bundle changed another bundle")
            if op == 2 and not raised:
                # the bundle object now belongs to d; take it out of further 'other unchanged' comparisons
                od = None
        else:
            loc = ctx.str("nbid", 1, 1, "name")
            want_id = "http://n/" + loc
            exists = any(want_id == bid for bid, _ in dd["bundles"])
            try:
                nb = d.bundle("en:" + loc)
                raised = False
            except ProvException:
                raised = True
            nd = S.doc_desc(d)
            ctx.check(raised == exists, "bundle(id): exception iff the identifier is already used")
            if exists:
                ctx.check(exact_eq(dd, nd), "a refused bundle() call changed the document")
            else:
                ctx.check(len(nd["bundles"]) == len(dd["bundles"]) + 1 and S.records_eq(nd["records"], dd["records"]),
                          "bundle(id) did not add exactly one empty bundle")
                ctx.check(_bundle_recs(nd, want_id) == [], "new bundle is not empty / has another identifier")
        if od is not None and op not in (2,):
            ctx.check(exact_eq(od, S.doc_desc(o)), "%s changed the other document's content" % OPS[op])
            ctx.check(exact_eq(ons, S.doc_ns_desc(o)), "%s changed the other document's namespaces" % OPS[op])
    ctx.observe("final~", S.doc_desc(d))


def _shards(tier):
    out = []
    single = [[0], [1], [2], [3], [4], [5], [6]]
    for ops in single:
        for db in (False, True):
            for ob in (False, True):
                if ops == [2] and not ob:
                    continue
                if ops in ([0], [4], [5], [6]) and ob:
                    continue
                out.append({"ops": ops, "dbundle": db, "obundle": ob})
    pairs = [[1, 0], [3, 0], [2, 0], [1, 1], [4, 1], [1, 4], [3, 3], [0, 1]]
    for ops in pairs:
        out.append({"ops": ops, "dbundle": True, "obundle": ops != [3, 0] and ops != [3, 3]})
        if tier == "thorough":
            out.append({"ops": ops, "dbundle": False, "obundle": ops not in ([3, 0], [3, 3])})
    if tier == "thorough":
        for ops in ([1, 0, 1], [1, 2, 0], [4, 1, 0], [3, 1, 0]):
            out.append({"ops": ops, "dbundle": True, "obundle": ops[0] != 3})
    # split the shards where both documents have a bundle by their structural choices
    final = []
    # pairwise-covering subset of (dhasdef, ohasdef, dbmode, obmode) for quick two-step sequences
    cover = [(False, False, 0, 0), (False, True, 1, 1), (True, False, 2, 2), (True, True, 0, 1), (False, False, 1, 2),
             (False, True, 2, 0), (True, False, 1, 0), (False, False, 3, 3), (True, False, 3, 0), (False, True, 0, 3)]
    for sh in out:
        if sh["dbundle"] and (sh["obundle"] or len(sh["ops"]) > 1):
            full = tier == "thorough"
            if full:
                combos = [(a, b, c, e) for a in (False, True) for b in (False, True) for c in range(3) for e in range(3)] + [x for x in cover if 3 in x[2:]]
            elif len(sh["ops"]) > 1:
                combos = [x for x in cover if not (x[0] and x[1])]  # both-defaults only for single operations in quick
                if 4 in sh["ops"]:
                    combos = [x for x in combos if x != (False, True, 2, 0)]  # > 5 min on its own: thorough tier only
            else:
                combos = cover
            for a, b, c, e in combos:
                x = dict(sh, dhasdef=a, ohasdef=b, dbmode=c)
                if sh["obundle"]:
                    x["obmode"] = e
                elif e != 0:
                    continue
                final.append(x)
        else:
            final.append(sh)
    return final


OBLIGATIONS = [
    Obligation(name="conserve", fn=conserve, shards=_shards,
               desc="after every operation of a sequence over {flattened, update, add_bundle(bundle|document|refusal cases), bundle(id)} on two documents, "
                    "the multiset identities of the statement hold at URI level (strict content), refusals leave the target unchanged, "
                    "and the other document's content and namespaces are unchanged",
               bounds={"quick": "sequences of 1-2 operations (structural choices of the two sides from a pairwise-covering set of 7 combinations when both have bundles); each document: 2 records (+ bundle with 1 record in 3 namespace modes: own default / clashing prefix p / inherited, or an empty bundle); records carry extra attributes named like formal attributes of other kinds; "
                                "first document: fixed URIs x:p / x:d / x:b / x:q; second document: symbolic default-namespace URI (present/absent), symbolic URI for prefix p and for its bundle (|uri|<=3, may coincide with the first document's), symbolic bundle identifier locals (|l|=1)",
                       "thorough": "as quick with |uri|<=4, both bundle configurations for pairs, and 4 sequences of 3 operations"},
               assumptions=["URIs have absolute-IRI shape; bundle identifier locals are single letters",
                            "stub: str(record) for logger.debug returns a constant"],
               functions=["prov.model.ProvDocument.flattened/update/add_bundle/bundle", "prov.model.ProvBundle.update/add_record/new_record",
                          "prov.model.NamespaceManager.valid_qualified_name/add_namespace ('dn' re-homing, clash renaming)"],
               budget_s=(300, 1200), per_path_s=(30, 60)),
]
