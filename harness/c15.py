"""C15 - DOT output is always valid Graphviz: one node per element, one path per relation."""
import json
import os
import shutil
import subprocess
import tempfile

from symprov.oblig import Obligation
from harness.common import EX, TIMES, new_doc, stub_logging_str

CASES = ["identifier label (use_labels=False)", "HTML label (use_labels, prov:label symbolic)",
         "identifier label under use_labels without prov:label", "annotation row: string attribute value",
         "annotation row: URI attribute value (href)", "bundle label and URL", "generic node for a merely referenced name",
         "HTML label with symbolic label AND identifier", "annotation row: attribute NAME"]


class _Rec:
    """pydot stand-in that records the strings prov.dot hands over (observation point of the token kernels)"""

    def __init__(self):
        self.calls = []
        rec = self

        class Node:
            def __init__(self, name, **kw):
                self.name, self.kw = name, kw
                rec.calls.append(("node", name, kw))

        class Edge:
            def __init__(self, a, b, **kw):
                rec.calls.append(("edge", a, b, kw))

        class _G:
            def __init__(self, *a, **kw):
                self.kw = kw
                rec.calls.append(("graph", a, kw, self))

            def add_node(self, n):
                pass

            def add_edge(self, e):
                pass

            def add_subgraph(self, g):
                pass

            def set_label(self, s):
                self.label = s
                rec.calls.append(("set_label", s))

        self.Node, self.Edge, self.Dot, self.Cluster = Node, Edge, _G, _G


def _split_template(rendered, markers):
    """rendered: reference HTML label containing one private-use marker char per source -> (skeleton, [data pieces])"""
    from oracles.transducers import py_html_label

    sk, data = py_html_label(rendered)
    pieces = []
    cur = ""
    for ch in data:
        if ch in markers:
            pieces.append(cur)
            pieces.append(markers.index(ch))
            cur = ""
        else:
            cur += ch
    pieces.append(cur)
    return sk, pieces


def _check_token(ctx, what, tok, expect):
    """expect: ('quoted', text) | ('html', skeleton, [const | source...])"""
    if ctx.sym:
        from crosshair.libimpl.builtinslib import SymbolicBool
        from crosshair.statespace import context_statespace
        from crosshair.tracers import NoTracing
        from symprov.slotstr import SlotStr, _slots_of
        from oracles import transducers as T

        with NoTracing():
            slots = _slots_of(tok)
            if slots is None:
                raise AssertionError("token was concretised: %r" % type(tok))
            sp = context_statespace()
            if expect[0] == "quoted":
                good = SymbolicBool(T.dot_quoted_string_denotes(slots, _slots_of(expect[1]), sp))
            else:
                data = []
                for piece in expect[2]:
                    data.extend(_slots_of(piece))
                good = SymbolicBool(T.html_label_matches(slots, expect[1], data, sp))
        if ctx.params.get("xcheck"):
            res = ctx.cross_check(good, what)
            ctx.check(not any(v == "sat" for v in res.values()), "solvers disagree on the kernel query (inconclusive): %s" % res)
        ctx.check(good, "%s is not a single well-formed DOT token denoting its source text (syntax break / markup injection)" % what)
    else:
        from oracles import transducers as T

        if expect[0] == "quoted":
            r = T.py_dot_quoted(tok)
            ctx.check(r is not None and (r[0] == expect[1] or r[1] == expect[1]),
                      "%s is not a single well-formed DOT token denoting its source text (syntax break / markup injection)" % what)
        else:
            r = T.py_html_label(tok)
            ctx.check(r is not None and r[0] == expect[1] and r[1] == "".join(expect[2]),
                      "%s is not a single well-formed DOT token denoting its source text (syntax break / markup injection)" % what)


NODE_HTML = '<%s<br /><font color="#333333" point-size="10">%s</font>>'
M = ["", "", "", "", ""]


def _annotation_expect(attr_uri, attr_str, value_uri, value_text):
    import prov.dot as pdot

    srcs = [attr_uri, attr_str] + ([value_uri] if value_uri is not None else []) + [value_text]
    row = pdot.ANNOTATION_ROW_TEMPLATE % (M[0], M[1], (' href="%s"' % M[2]) if value_uri is not None else "",
                                           M[3] if value_uri is not None else M[2])
    rendered = "\n".join([pdot.ANNOTATION_START_ROW, row, pdot.ANNOTATION_END_ROW])
    sk, pieces = _split_template(rendered, M)
    return ("html", sk, [p if isinstance(p, str) else srcs[p] for p in pieces])


def token_kernel(ctx):
    import prov.dot as pdot
    from prov.identifier import Identifier, Namespace, QualifiedName

    stub_logging_str(ctx)
    case = ctx.params["case"]
    N = ctx.params["n"]
    ns = Namespace("ex", EX)
    d = new_doc(second_prefix=False)
    s = ctx.slotstr("s", N)
    expects = {}  # (kind, key) -> expectation
    use_labels = case in (1, 2, 7)
    if case in (0, 2):
        d.entity(QualifiedName(ns, s))
        expects["node"] = [("label", ("quoted", "ex:" + s)), ("URL", ("quoted", EX + s))]
    elif case == 1:
        d.entity("ex:e1", {"prov:label": s})
        sk, pieces = _split_template(NODE_HTML % (M[0], M[1]), M)
        expects["node"] = [("label", ("html", sk, [p if isinstance(p, str) else (s, "ex:e1")[p] for p in pieces])),
                           ("URL", ("quoted", EX + "e1"))]
    elif case == 7:
        t = ctx.slotstr("t", max(2, N // 2))
        d.entity(QualifiedName(ns, t), {"prov:label": s})
        sk, pieces = _split_template(NODE_HTML % (M[0], M[1]), M)
        expects["node"] = [("label", ("html", sk, [p if isinstance(p, str) else (s, "ex:" + t)[p] for p in pieces])),
                           ("URL", ("quoted", EX + t))]
    elif case == 3:
        d.entity("ex:e1", {"ex:k": s})
        expects["ann"] = _annotation_expect(EX + "k", "ex:k", None, s)
    elif case == 4:
        d.entity("ex:e1", {"ex:k": Identifier(s)})
        expects["ann"] = _annotation_expect(EX + "k", "ex:k", s, s)
    elif case == 5:
        b = d.bundle(QualifiedName(ns, s))
        b.entity("ex:e1")
        expects["cluster"] = [("label", ("quoted", "ex:" + s)), ("URL", ("quoted", EX + s))]
    elif case == 6:
        ctx.assume(s != "e1")  # otherwise the name is a declared element and no generic node is drawn
        d.entity("ex:e1")
        d.wasDerivedFrom("ex:e1", QualifiedName(ns, s))
        expects["generic"] = [("label", ("quoted", "ex:" + s)), ("URL", ("quoted", EX + s))]
    else:
        d.entity("ex:e1", [(QualifiedName(ns, s), 1)])
        expects["ann"] = _annotation_expect(EX + s, "ex:" + s, None, "1")
    rec = _Rec()
    real = pdot.pydot
    pdot.pydot = rec
    try:
        pdot.prov_to_dot(d, use_labels=use_labels)
    finally:
        pdot.pydot = real
    seen = 0
    for call in rec.calls:
        if call[0] == "node":
            name, kw = call[1], call[2]
            if name.startswith("ann") and "ann" in expects:
                _check_token(ctx, "annotation table label", kw["label"], expects["ann"])
                seen += 1
            elif name.startswith("n"):
                key = "node" if "node" in expects and seen == 0 and not (case == 6 and name == "n1") else None
                if case == 6:
                    key = "generic" if name == "n2" else None
                if key:
                    for k, exp in expects[key]:
                        _check_token(ctx, "node %s" % k, kw[k], exp)
                    seen += 1
        elif call[0] == "graph" and "cluster" in expects and "URL" in call[2]:
            _check_token(ctx, "cluster URL", call[2]["URL"], expects["cluster"][1][1])
            seen += 1
        elif call[0] == "set_label" and "cluster" in expects:
            _check_token(ctx, "cluster label", call[1], expects["cluster"][0][1])
            seen += 1
    ctx.check(seen >= 1, "harness: the expected pydot call was not observed")
    ctx.observe("case", case)


# ---- structure (Stage B through real pydot + Graphviz) --------------------------------------------------------------

def _graphviz_json(dot_text):
    exe = shutil.which("dot")
    if exe is None:
        return None, "graphviz not installed"
    tmp = tempfile.mkdtemp(prefix="c15_")
    try:
        p = os.path.join(tmp, "g.dot")
        with open(p, "w", encoding="utf-8") as f:
            f.write(dot_text)
        r = subprocess.run([exe, "-Tdot_json", p], capture_output=True, text=True, timeout=60)
        if r.returncode != 0:
            return None, r.stderr[:300]
        if "syntax error" in r.stderr or "Error:" in r.stderr:
            return None, r.stderr[:300]
        return json.loads(r.stdout), None
    finally:
        shutil.rmtree(tmp, ignore_errors=True)


NASTY = ['a "q" b', "x < y & z > w", "back\\slash\\", "line1\nline2", "é中\U0001f600", "<b>bold</b>", "&amp;", "tail\\"]
DIRECTIONS = ["BT", "TB", "LR", "RL", "sideways"]


def structure(ctx):
    """document x display options -> DOT accepted by Graphviz with the right nodes / clusters / edge paths"""
    import prov.dot as pdot
    from prov.model import ProvDocument

    stub_logging_str(ctx)
    P = ctx.params
    d = new_doc(second_prefix=False)
    # elements: 2 entities (one labelled), activity, agent; symbolic aliasing of the second entity's identifier
    nn = len(NASTY) if P["tier"] == "thorough" else 4
    ni = ctx.choose("nasty", nn) if P.get("bundle") != 2 else 3  # the blank-node shards do not vary the label text
    lab = NASTY[ni]
    val = NASTY[(ni + 3) % len(NASTY)]
    e2 = "ex:" + ctx.str("e2", 2, 1, "name")
    d.entity("ex:e1", {"prov:label": lab, "ex:note": val})
    d.entity(e2, {"ex:k": 1})
    d.activity("ex:a1", TIMES[0])
    d.agent("ex:ag")
    rels = P["rels"]
    for r in rels:
        if r == 0:
            d.wasGeneratedBy("ex:e1", "ex:a1")                               # binary, declared ends
        elif r == 1:
            d.used("ex:a1", e2, TIMES[1], other_attributes={"prov:role": val})  # annotated
        elif r == 2:
            d.wasDerivedFrom(e2, "ex:e1", "ex:a1", "ex:g1", "ex:u1")          # n-ary, undeclared extra ends
        elif r == 3:
            d.wasAssociatedWith("ex:a1", "ex:ag", "ex:plan")                  # n-ary with undeclared plan
        elif r == 4:
            d.wasAttributedTo("ex:undeclared", "ex:ag")                       # undeclared first end
        elif r == 5:
            d.wasInformedBy("ex:a1", "ex:a1")                                 # self loop
        elif r == 6:
            d.wasGeneratedBy("ex:e1", None, TIMES[0])                         # one end only: not drawable
        elif r == 7:
            d.specializationOf("ex:e1", e2)
    if P.get("bundle"):
        # region of open finding C15.cross_container_node: a relation inside a bundle refers to an element declared
        # only at top level; the shared node is then placed inside the bundle's cluster by Graphviz
        ctx.finding("C15.cross_container_node", e2 == "ex:a9")
        if P["bundle"] == 2:
            ctx.finding("C15.cross_container_node", e2 == "ex:e8")  # the same situation through the bundle's second reference
        b = d.bundle("ex:bundle1")
        b.entity("ex:e1", {"prov:label": lab})
        b.wasGeneratedBy("ex:e1", "ex:a9")
        if P["bundle"] == 2:
            # annotated and n-ary relations inside the bundle as well (each needs a blank node of its own)
            b.used("ex:a9", "ex:e1", None, other_attributes={"ex:k": 2})
            b.wasDerivedFrom("ex:e1", "ex:e8", "ex:a9")
    if P.get("directions"):
        show_el = show_rel = show_nary = True   # the direction shard varies direction x use_labels only
    else:
        show_el = ctx.bool("show_el")
        show_rel = ctx.bool("show_rel") if (len(rels) < 3 and P.get("bundle") != 2) else show_el  # larger documents: the two flags vary together
        show_nary = ctx.bool("show_nary")
    opts = dict(show_nary=show_nary, use_labels=ctx.bool("use_labels"),
                show_element_attributes=show_el, show_relation_attributes=show_rel,
                direction=(DIRECTIONS[ctx.choose("direction", len(DIRECTIONS))] if P.get("directions") else "BT"))
    if ctx.sym:
        # Stage A explores prov_to_dot's own branches (node map, n-ary / annotation decisions) against the recorder
        rec = _Rec()
        real = pdot.pydot
        pdot.pydot = rec
        try:
            pdot.prov_to_dot(d, **opts)
        finally:
            pdot.pydot = real
        ctx.checks += 1
        ctx.observe("opts", [opts["show_nary"], opts["use_labels"], opts["show_el"] if "show_el" in opts else 0])
        return
    ctx.observe("opts", [opts["show_nary"], opts["use_labels"], 0])
    dot = pdot.prov_to_dot(d, **opts)
    text = dot.to_string()
    g, err = _graphviz_json(text)
    ctx.check(g is not None, "Graphviz rejects the DOT text: %s" % err)
    u = d.unified()
    objects = g.get("objects", [])
    idx = {o["_gvid"]: o for o in objects}
    clusters = [o for o in objects if o["name"].startswith("cluster")]
    ctx.check(len(clusters) == len(list(u.bundles)), "one cluster per bundle expected")

    def is_elem_node(o):
        return "nodes" not in o and "subgraphs" not in o and o.get("shape") != "point" and not o["name"].startswith("ann")

    in_cluster = set()
    per_container = []  # (records, nodes)
    for b in u.bundles:
        cl = [c for c in clusters if c.get("URL") == b.identifier.uri]
        ctx.check(len(cl) == 1, "bundle %s has %d clusters" % (b.identifier, len(cl)))
        members = [idx[i] for i in cl[0].get("nodes", [])]
        in_cluster.update(o["_gvid"] for o in members)
        per_container.append((list(b.get_records()), [o for o in members if is_elem_node(o)]))
    per_container.append((list(u.get_records()), [o for o in objects if is_elem_node(o) and o["_gvid"] not in in_cluster]))
    for recs, nodes in per_container:
        want = {}
        for r in recs:
            if r.is_element():
                want[r.identifier.uri] = want.get(r.identifier.uri, 0) + 1
        have = {}
        for o in nodes:
            have[o.get("URL")] = have.get(o.get("URL"), 0) + 1
        for uri, n in want.items():
            ctx.check(have.get(uri, 0) == n, "element %s: %d record(s) but drawn %d time(s) in its container" % (uri, n, have.get(uri, 0)))
        for uri, n in have.items():
            if uri not in want:
                ctx.check(n == 1, "referenced name %s drawn %d times" % (uri, n))
    # every two-ended relation is drawn as one edge path with the right end URLs and direction
    edges = g.get("edges", [])
    all_recs = list(u.get_records()) + [r for b in u.bundles for r in b.get_records()]
    for rec_ in all_recs:
        if not rec_.is_relation():
            continue
        ends = [v for a, v in rec_.formal_attributes if a in pdot.PROV_ATTRIBUTE_QNAMES]
        if len(ends) < 2 or ends[0] is None or ends[1] is None:
            continue
        a_url, b_url = ends[0].uri, ends[1].uri
        found = 0
        for e in edges:
            t, h = idx[e["tail"]], idx[e["head"]]
            if t.get("URL") == a_url and h.get("URL") == b_url:
                found += 1
            elif t.get("URL") == a_url and h.get("shape") == "point":
                for e2_ in edges:
                    if e2_["tail"] == h["_gvid"] and idx[e2_["head"]].get("URL") == b_url and "style" not in e2_:
                        found += 1
        ctx.check(found >= 1, "relation %s -> %s is not drawn as an edge path with these ends" % (a_url, b_url))
    # a blank (point) node belongs to ONE relation: exactly one edge leads into it
    for o in objects:
        if o.get("shape") == "point":
            indeg = len([e for e in edges if e["head"] == o["_gvid"] and not idx[e["tail"]]["name"].startswith("ann")])
            ctx.check(indeg == 1, "a blank node is shared by %d relations (node names are global in DOT, also across clusters)" % indeg)
    ann = [o for o in objects if o["name"].startswith("ann")]
    want_ann = 0
    for rec_ in all_recs:
        other = [1 for a, v in rec_.attributes if a not in pdot.PROV_ATTRIBUTE_QNAMES]
        ends = [v for a, v in rec_.formal_attributes if a in pdot.PROV_ATTRIBUTE_QNAMES]
        if rec_.is_element() and opts["show_element_attributes"] and other:
            want_ann += 1
        if rec_.is_relation() and opts["show_relation_attributes"] and other and len(ends) >= 2:
            want_ann += 1
    ctx.check(len(ann) == want_ann, "%d annotation tables drawn, %d records have displayable attributes" % (len(ann), want_ann))


HTML_CASES = (1, 3, 4, 7, 8)


def _kernel_shards(tier):
    # quoted-string cases are cheap; HTML-like labels (entity decoding + skeleton) are the expensive queries
    nq, nh = (6, 3) if tier == "quick" else (12, 6)
    out = [{"case": c, "n": (nh if c in HTML_CASES else nq)} for c in range(len(CASES))]
    # second-opinion solvers (z3 4.8.12, cvc5 1.0.3 binaries) on the quoted-string and the HTML node-label kernels
    out += [{"case": 0, "n": 4, "xcheck": True}, {"case": 5, "n": 4, "xcheck": True}, {"case": 1, "n": 2, "xcheck": True}]
    return out


def _structure_shards(tier):
    sets = [[0], [1], [2], [3], [4], [5], [6], [7], [0, 1, 2], [2, 3, 4, 5]]
    out = [{"rels": s} for s in sets]
    out.append({"rels": [0, 1], "bundle": True})
    out.append({"rels": [2], "bundle": True})
    out.append({"rels": [1], "bundle": 2})
    out.append({"rels": [2], "bundle": 2})
    out.append({"rels": [0, 2], "directions": True})
    return out


PRELOAD = ("prov.model", "prov.graph", "prov.dot", "pydot")

OBLIGATIONS = [
    Obligation(name="token_kernel", fn=token_kernel, shards=_kernel_shards,
               desc="for EVERY identifier / label / attribute value / attribute name / URI of <=N code points, the label and URL strings the real prov.dot code hands to "
                    "pydot are single well-formed DOT IDs: a quoted string (Graphviz scanner rules) denoting the source text, or an HTML-like label whose markup skeleton "
                    "is exactly the template's and whose text / attribute-value data (entities decoded) is exactly the source text - so no character can break the syntax or inject markup",
               bounds={"quick": "quoted-string call sites N = 6 code points, HTML-like label call sites N = 3; 9 call-site cases",
                       "thorough": "quoted N = 12, HTML-like N = 6"},
               assumptions=["strings are sequences of Unicode scalar values; names are put in QualifiedName objects directly (no string resolution)",
                            "HTML-like label model: tags, quoted attribute values, text, the entities html.escape can produce"],
               functions=["prov.dot.prov_to_dot/_add_node/_add_generic_node/_add_bundle/_attach_attribute_annotation", "html.escape"],
               shims=["prov.dot.pydot replaced by a recorder (observation point); tokens checked symbolically at the call"],
               budget_s=(300, 3000), per_path_s=(200, 2500)),
    Obligation(name="structure", fn=structure, shards=_structure_shards,
               desc="documents with declared/undeclared endpoints, n-ary and annotated relations, self loops, one-ended relations, a bundle, nasty labels/values x all 16 option "
                    "combinations x 5 directions: Stage A explores prov_to_dot's branches; every path witness is rendered with real pydot and parsed by Graphviz (dot -Tdot_json): "
                    "accepted, one node per element, one cluster per bundle, one edge path per two-ended relation with the right URLs and direction",
               bounds="4 elements, 1-4 relations from 8 shapes, optional bundle; label/value from an 8-string catalogue of hostile texts; second entity identifier symbolic (aliasing)",
               assumptions=["Graphviz 2.43 is the acceptance oracle"], functions=["prov.dot.prov_to_dot (all inner functions)", "prov.model.ProvDocument.unified"],
               shims=["pydot + Graphviz crossed in Stage B only"], best_verdict="PATH_COMPLETE",
               budget_s=(450, 1200), per_path_s=(30, 60)),
]
