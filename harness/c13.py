"""C13 - exporting never mutates the document and is repeatable."""
from symprov.oblig import Obligation
from harness.common import stub_logging_str
from harness import docspace as DS
from harness.c12 import exact_eq, snap

PRELOAD = ("prov.model", "prov.serializers.provjson", "prov.serializers.provn", "prov.serializers.provxml",
           "prov.serializers.provrdf", "prov.graph", "prov.dot")
PURE = ["json_container", "eq_self", "eq_other", "unified", "flattened", "hash_records?", "get_record_lookups"]
ALL = ["json", "json_indent_sorted", "xml", "xml_force_types", "provn", "rdf", "graph", "dot", "dot_labels", "eq", "hash",
       "unified", "flattened", "get_provn", "lookups"]


def deep_eq(a, b):
    if hasattr(a, "_k") and hasattr(b, "_k"):
        return exact_eq(list(zip(a._k, a._v)), list(zip(b._k, b._v))) if not any(hasattr(v, "_k") or isinstance(v, list) for v in a._v) \
            else (len(a._k) == len(b._k) and all(bool(x == y) for x, y in zip(a._k, b._k)) and all(deep_eq(x, y) for x, y in zip(a._v, b._v)))
    if isinstance(a, dict) and isinstance(b, dict):
        return list(a.keys()) == list(b.keys()) and all(deep_eq(a[k], b[k]) for k in a)
    if isinstance(a, (list, tuple)) and isinstance(b, (list, tuple)):
        return len(a) == len(b) and all(deep_eq(x, y) for x, y in zip(a, b))
    if a is None or b is None:
        return a is None and b is None
    return bool(a == b)


def _pure_export(ctx, d, other, which):
    from prov.serializers.provjson import encode_json_document

    if which == 0:
        return encode_json_document(d)
    if which == 1:
        return bool(d == d)
    if which == 2:
        return bool(d == other), bool(other == d)
    if which == 3:
        return d.unified().get_records() is not None
    if which == 4:
        return d.flattened() is not None
    if which == 5:
        if not ctx.sym:
            return [hash(r) for r in d.get_records()]
        return None
    # lookups of present and absent names must not leave traces that change later exports
    for r in list(d.get_records()):
        if r.identifier is not None:
            d.get_record(r.identifier)
    d.get_record("ex:absent")
    for b in d.bundles:
        b.get_record("ex:absent")
    return None


def _nonunifiable(ctx):
    """a document unified() refuses (one activity asserted with two start times), with relations recorded before
    elements at both levels: exporters that fall back to the original document must still leave it alone"""
    from harness.common import TIMES, new_doc

    d = new_doc(second_prefix=False)
    d.wasGeneratedBy("ex:e1", "ex:a1")
    d.activity("ex:a1", TIMES[0])
    d.entity("ex:e1", {"ex:k": 1})
    d.activity("ex:a1", TIMES[1])
    b = d.bundle("ex:b1")
    b.used("ex:a2", "ex:e2")
    b.entity("ex:e2")
    b.activity("ex:a2", None, TIMES[0])
    b.activity("ex:a2", None, TIMES[2])
    return d


def _build(ctx, P):
    if P["gen"] == "nonunifiable":
        return _nonunifiable(ctx)
    if P["gen"] == "values":
        return DS.values_doc(ctx, P["attr"], P["vk"], P["ns"], P["bundle"], text_kind="text")
    return DS.structure_doc(ctx, P["kind"], P.get("second"), P.get("bundle", False))


def pure_exports(ctx):
    from oracles import strict as S
    from prov.serializers.provjson import encode_json_document

    stub_logging_str(ctx)
    P = ctx.params
    d = _build(ctx, P)
    other = d.flattened() if P.get("bundle") else d.unified()  # another document to compare with
    before = snap(S, d)
    base = encode_json_document(d)
    e1 = P["e1"] if "e1" in P else ctx.choose("exp1", len(PURE))
    e2 = (e1 + ctx.choose("exp2", 2 if P["tier"] == "quick" else 3)) % len(PURE)   # the same exporter again, or the next one (two)
    r1 = _pure_export(ctx, d, other, e1)
    ctx.check(exact_eq(before["content"], snap(S, d)["content"]), "%s changed the document's content or record order" % PURE[e1])
    ctx.check(exact_eq(before["ns"], snap(S, d)["ns"]), "%s changed the document's registered / default namespaces" % PURE[e1])
    r2 = _pure_export(ctx, d, other, e2)
    after = snap(S, d)
    ctx.check(exact_eq(before["content"], after["content"]), "%s after %s changed the document's content or record order" % (PURE[e2], PURE[e1]))
    ctx.check(exact_eq(before["ns"], after["ns"]), "%s after %s changed the document's namespaces" % (PURE[e2], PURE[e1]))
    if e1 == e2 and e1 in (0, 2, 5):
        ctx.check(deep_eq(r1, r2), "calling %s twice gave different results" % PURE[e1])
    ctx.check(deep_eq(base, encode_json_document(d)), "the PROV-JSON container differs after %s, %s" % (PURE[e1], PURE[e2]))
    # PROV-N text before/after for one representative of this path
    ctx.pin_all("PROV-N text compared for one representative per path")
    t1 = d.get_provn()
    _pure_export(ctx, d, other, e1)
    ctx.check(d.get_provn() == t1, "get_provn() text changed after %s" % PURE[e1])
    ctx.observe("exp", [e1, e2])


def _export(d, which, other):
    from prov.model import ProvException

    try:
        return _export1(d, which, other)
    except ProvException as e:   # a non-unifiable document: the exporter may refuse, but it must refuse the same way every time
        return ("prov-exception", ALL[which], str(e))


def _export1(d, which, other):
    import io
    import prov.graph as pg
    import prov.dot as pdot

    name = ALL[which]
    if name == "json":
        return d.serialize(format="json")
    if name == "json_indent_sorted":
        return d.serialize(format="json", indent=2, sort_keys=True)
    if name == "xml":
        return d.serialize(format="xml")
    if name == "xml_force_types":
        return d.serialize(format="xml", force_types=True)
    if name == "provn":
        return d.serialize(format="provn")
    if name == "rdf":
        try:
            return ("rdf", d.serialize(format="rdf"))
        except Exception as e:  # documents that PROV-O cannot express (C07's exclusions): only the snapshot matters
            return ("rdf-error", type(e).__name__)
    if name == "graph":
        g = pg.prov_to_graph(d.flattened())
        return ("n", g.number_of_nodes(), g.number_of_edges())
    if name == "dot":
        return pdot.prov_to_dot(d).to_string()
    if name == "dot_labels":
        return pdot.prov_to_dot(d, use_labels=True, show_nary=False).to_string()
    if name == "eq":
        return (d == other, other == d, d == d)
    if name == "hash":
        return [hash(r) for r in d.get_records()]
    if name == "unified":
        return d.unified().get_provn()
    if name == "flattened":
        return d.flattened().get_provn()
    if name == "get_provn":
        return d.get_provn()
    for r in list(d.get_records()):
        if r.identifier is not None:
            d.get_record(r.identifier)
    d.get_record("ex:absent")
    return None


def all_exports(ctx):
    """Stage A builds the document (and explores the JSON encoder); Stage B runs EVERY ordered pair of the 15 exporters"""
    from oracles import strict as S
    from prov.serializers.provjson import encode_json_document

    stub_logging_str(ctx)
    P = ctx.params
    d = _build(ctx, P)
    if ctx.sym:
        encode_json_document(d)
        ctx.checks += 1
        ctx.observe("n", 0)
        return
    import rdflib
    from rdflib.compare import isomorphic

    def canon(text):
        from rdflib.compare import to_canonical_graph

        g = rdflib.ConjunctiveGraph().parse(data=text, format="trig")
        out = {}
        for c in g.contexts():
            key = str(c.identifier) if isinstance(c.identifier, rdflib.URIRef) else "default"
            out.setdefault(key, []).extend(sorted(" ".join(t.n3() for t in tr) for tr in to_canonical_graph(c)))
        return {k: sorted(v) for k, v in out.items() if v}

    def same(a, b):
        if isinstance(a, tuple) and a and a[0] == "rdf" and isinstance(b, tuple) and b[0] == "rdf":
            return canon(a[1]) == canon(b[1])
        return a == b

    witness = dict(ctx.witness)
    twin = _build(type(ctx)(witness, ctx.params, ctx.open_findings), P)  # a second document built by the same calls
    before = snap(S, d)
    first = {}
    for i in range(len(ALL)):
        first[i] = _export(d, i, twin)
        ctx.check(exact_eq(before, snap(S, d)), "%s changed the document (content, order or namespaces)" % ALL[i])
        ctx.check(same(first[i], _export(twin, i, d)), "two documents built by the same calls export differently with %s" % ALL[i])
    for i in range(len(ALL)):
        for j in range(len(ALL)):
            _export(d, i, twin)
            r = _export(d, j, twin)
            ctx.check(exact_eq(before, snap(S, d)), "%s then %s changed the document" % (ALL[i], ALL[j]))
            ctx.check(same(first[j], r), "%s returns something else after %s" % (ALL[j], ALL[i]))
    ctx.observe("n", 0)


def _pure_shards(tier):
    base = []
    vks = (0, 5, 6) if tier == "quick" else (0, 1, 5, 6, 9, 12)
    kinds = (0, 2, 11, 17) if tier == "quick" else (0, 1, 2, 5, 11, 14, 17)
    for vk in vks:
        for ns, b in ((0, False), (1, True), (2, True), (3, False), (4, True)):
            base.append({"gen": "values", "attr": 0, "vk": vk, "ns": ns, "bundle": b, "prefix_kind": "name"})
    for k in kinds:
        base.append({"gen": "structure", "kind": k, "second": "same_kind"})
        base.append({"gen": "structure", "kind": k, "bundle": True})
    return [dict(x, e1=e) for x in base for e in range(len(PURE))]


def _all_shards(tier):
    out = []
    for vk in range(len(DS.VALUE_KINDS)):
        out.append({"gen": "values", "attr": 0, "vk": vk, "ns": 0, "bundle": False, "prefix_kind": "name"})
    for ns, b in ((1, True), (2, True), (4, True)):
        out.append({"gen": "values", "attr": 1, "vk": 5, "ns": ns, "bundle": b, "prefix_kind": "name"})
    for vk in (9, 16, 6, 18):
        out.append({"gen": "values", "attr": 0, "vk": vk, "ns": 0, "bundle": True, "prefix_kind": "name"})
    for k in range(18):
        out.append({"gen": "structure", "kind": k, "second": "same_kind", "rdf_ok": True})
    out.append({"gen": "nonunifiable"})
    return out


_ASSUME = ["documents from the C01 space with XML-safe strings and NCName-like names", "determinism across processes / PYTHONHASHSEED is outside the claim",
           "RDF compared by rdflib.compare.isomorphic per named graph", "stub: str(record) for logger.debug returns a constant"]

OBLIGATIONS = [
    Obligation(name="pure_exports", fn=pure_exports, shards=_pure_shards,
               desc="for every ordered pair of pure-Python exporters (PROV-JSON container, ==, unified, flattened, lookups ...) on documents with symbolic contents: "
                    "strict content, record order, registered and default namespaces are identical before and after; repeated calls agree; the JSON container is unchanged; PROV-N text unchanged",
               bounds="documents as C01.values (3 (quick) / 6 value kinds x 5 namespace modes) and C01.structure (4 / 8 kinds, two records / bundle); each exporter followed by itself or the next one (14 ordered pairs; 21 in the thorough tier)",
               assumptions=_ASSUME, functions=["prov.serializers.provjson.encode_json_document", "prov.model.ProvDocument.__eq__/unified/flattened", "prov.model.ProvBundle.get_record/get_provn"],
               budget_s=(400, 900), per_path_s=(30, 60)),
    Obligation(name="all_exports", fn=all_exports, shards=_all_shards,
               desc="Stage A enumerates document-construction paths; on each witness Stage B runs all 15 exporters (json with options, xml +/- force_types, provn, rdf, graph, dot +/- labels, ==, hash, "
                    "unified, flattened, get_provn, lookups) and all 225 ordered pairs: document snapshot unchanged, same output on repetition and on a twin document built by the same calls",
               bounds="one representative per construction path of 15 value kinds + 3 namespace modes + 18 kinds with a second record + one document unified() refuses (relations recorded before elements, in the document and in a bundle)", assumptions=_ASSUME,
               functions=["prov.model.ProvDocument.serialize (json/xml/provn/rdf)", "prov.graph.prov_to_graph", "prov.dot.prov_to_dot", "prov.model.*"],
               shims=["lxml / rdflib / networkx / pydot crossed in Stage B only"], best_verdict="PATH_COMPLETE",
               budget_s=(200, 900), per_path_s=(30, 60)),
]
