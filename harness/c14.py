"""C14 - graph conversion mirrors the document and converts back to its unified form."""
from symprov.oblig import Obligation
from harness.common import EX, TIMES, KIND_NAMES, add_record, formal, new_doc, stub_logging_str

def _warm_up_networkx():
    """networkx compiles some of its functions lazily with exec() on first call; do that outside CrossHair's tracer"""
    import networkx as nx

    g = nx.MultiDiGraph()
    g.add_node("a")
    g.add_node("b")
    g.add_edge("a", "b", relation=1)
    list(g.nodes())
    list(g.edges(data=True))


_warm_up_networkx()

REL_KINDS = [2, 3, 4, 5, 6, 7, 8, 10, 11, 12, 13, 14, 15, 16, 17]
NAMES = ["ex:e1", "ex:a1", "ex:ag", "ex:u1", "ex:u2"]  # the last two are never declared


def graph(ctx):
    import prov.graph as pg
    from prov.model import ProvElement, ProvRelation
    from oracles import strict as S

    stub_logging_str(ctx)
    P = ctx.params
    d = new_doc(second_prefix=False)
    relations_first = bool(P.get("relations_first"))   # relations may precede the declaration of their endpoints

    def elements():
        d.entity("ex:e1", {"ex:k": 1})
        d.activity("ex:a1", TIMES[0])
        d.agent("ex:ag")

    if not relations_first:
        elements()
    variant = ctx.choose("variant", 3)
    if variant == 1:
        d.entity("ex:e1", {"ex:k": ctx.bigint("v")})     # repeated identifier: unified() merges
    if variant == 2:
        d.agent("ex:e1")                                  # another element KIND under the same identifier
    names = NAMES if P["nrel"] < 2 else NAMES[:2] + NAMES[3:4]
    first_identified = False
    for i in range(P["nrel"]):
        k = P["kinds"][i] if "kinds" in P else REL_KINDS[ctx.choose("kind", len(REL_KINDS))]
        fa = formal(k)
        a1 = P["end1"] if (i == 0 and "end1" in P) else names[ctx.choose("end1", len(names))]
        has2 = ctx.bool("has_second") if i == 0 else True
        a2 = names[ctx.choose("end2", len(names))] if has2 else None
        args = [a1, a2] + [None] * (len(fa) - 2)
        identified = ctx.bool("identified") if i == 0 else (first_identified and ctx.bool("same_relation_id"))
        if i == 0:
            first_identified = identified
        # a second relation may carry the SAME identifier as the first one (two relation kinds under one identifier)
        # the relation's identifier may coincide with the name of a declared element or of an undeclared endpoint
        rid = "ex:r0"
        if identified and P["nrel"] == 1:
            rid = ("ex:r0", "ex:e1", "ex:u1")[ctx.choose("relation_id", 3)]
        add_record(d, k, rid if identified else None, args, [("ex:w", i)] if identified else None)
    if relations_first:
        elements()
    ctx.pin_all("names reach networkx (hashing)")
    ctx.observe("cfg", P.get("kinds"))
    if ctx.sym:
        # every value is a concrete catalogue choice: the conversion itself has no symbolic branch to explore, so
        # Stage A only enumerates the configurations; the real code runs once per configuration in Stage B
        ctx.checks += 1
        return
    from prov.model import ProvException

    try:
        u = d.unified()
    except ProvException:
        ctx.assume(False)  # two same-kind relations under one identifier that disagree: there is no unified document
    g = pg.prov_to_graph(d)
    declared = {}
    for r in u.get_records(ProvElement):
        declared[r.identifier.uri] = declared.get(r.identifier.uri, 0) + 1
    rels = []
    dontcare = []   # influence relations with an undeclared endpoint: outside the quantifier (drawn or skipped, no claim)
    skipped_influence = 0
    for r in u.get_records(ProvRelation):
        (n1, v1), (n2, v2) = r.formal_attributes[:2]
        if v1 is None or v2 is None:
            continue
        if r.get_type().localpart == "Influence" and (v1.uri not in declared or v2.uri not in declared):
            skipped_influence += 1   # documented: the node kind cannot be inferred, the relation is skipped
            dontcare.append(r)
            continue
        rels.append((r, v1.uri, v2.uri))
    nodes = list(g.nodes())
    real = [n for n in nodes if n.bundle is not None]
    inferred = [n for n in nodes if n.bundle is None]
    ctx.check(S.records_eq([S.record_desc(n) for n in real], [S.record_desc(r) for r in u.get_records(ProvElement)]),
              "graph nodes are not exactly the element records of the unified document")
    undeclared = []
    for _, x, y in rels:
        for uri in (x, y):
            if uri not in declared and uri not in undeclared:
                undeclared.append(uri)
    ctx.check(sorted(n.identifier.uri for n in inferred) == sorted(undeclared),
              "inferred nodes %s differ from the referenced-but-undeclared endpoints %s"
              % (sorted(n.identifier.uri for n in inferred), sorted(undeclared)))
    edges = [e for e in g.edges(data=True) if not any(e[2].get("relation") == x for x in dontcare)]
    ctx.check(len(edges) == len(rels), "%d edges for %d relations with two endpoints" % (len(edges), len(rels)))
    for r, x, y in rels:
        hits = [e for e in edges if e[2].get("relation") is r or (e[2].get("relation") == r and S.record_eq(S.record_desc(e[2]["relation"]), S.record_desc(r)))]
        hits = [e for e in hits if e[0].identifier.uri == x and e[1].identifier.uri == y]
        ctx.check(len(hits) >= 1, "relation %s is not an edge from its first to its second argument" % KIND_NAMES[0])
    back = pg.graph_to_prov(g)
    want = [S.record_desc(r) for r in u.get_records(ProvElement)] + [S.record_desc(r) for r, _, _ in rels]
    dc = [S.record_desc(x) for x in dontcare]
    have = [h for h in S.bundle_desc(back) if not any(S.record_eq(h, x) for x in dc)]
    ctx.check(S.records_eq(have, want), "graph_to_prov(prov_to_graph(d)) is not the unified document restricted to elements and two-ended relations: %s"
              % S.first_difference(want, have))
    ctx.check(len(list(back.bundles)) == 0, "graph_to_prov invented bundles")



def _shards(tier):
    out = [{"nrel": 0}]
    for k in REL_KINDS:
        for e in NAMES:
            out.append({"nrel": 1, "kinds": [k], "end1": e})
        out.append({"nrel": 1, "kinds": [k], "end1": NAMES[0], "relations_first": True})
        out.append({"nrel": 1, "kinds": [k], "end1": NAMES[3], "relations_first": True})
    pairs = [(a, b) for a in REL_KINDS for b in REL_KINDS if a <= b]
    if tier == "quick":
        pairs = pairs[::3]   # 40 of the 120 unordered pairs (every kind occurs); all of them in the thorough tier
    for a, b in pairs:
        for e in (NAMES[0], NAMES[1], NAMES[3]):
            out.append({"nrel": 2, "kinds": [a, b], "end1": e})
    return out


PRELOAD = ("prov.model", "prov.graph", "networkx")

OBLIGATIONS = [
    Obligation(name="graph", fn=graph, shards=_shards,
               desc="prov_to_graph: nodes = element records of unified() + one inferred node per undeclared endpoint; one edge per two-ended relation, first -> second argument, carrying "
                    "the relation; graph_to_prov(g) = unified elements + those relations (strict multiset). Declared/undeclared endpoints, self loops, parallel relations, one-ended "
                    "relations, repeated identifiers, two element kinds under one identifier",
               bounds="3-5 elements, 0-2 relations: each of the 15 relation kinds alone and 40 (quick) / all 120 (thorough) unordered kind pairs; endpoints from 5 names (2 undeclared), every combination; "
                      "relations before / after the element declarations; two relations under one identifier; a single relation identified by a fresh name, by the name of a declared element or by the name of an undeclared endpoint",
               assumptions=["influence relations with an undeclared endpoint are skipped (documented by the converter)", "bundle-free documents",
                            "names are concrete (chosen by the solver from a catalogue): networkx hashes its nodes"],
               functions=["prov.graph.prov_to_graph/graph_to_prov/INFERRED_ELEMENT_CLASS", "prov.model.ProvDocument.unified", "prov.model.ProvRecord.__hash__/__eq__"],
               shims=["networkx is real code in both stages; names are pinned before it hashes them"], best_verdict="PATH_COMPLETE", traced=False,
               budget_s=(200, 900), per_path_s=(30, 60)),
]
