"""C12 - derived documents and copied records share no mutable state with their sources."""
from symprov.oblig import Obligation
from harness.common import EX, TIMES, add_record, new_doc, stub_logging_str

DERIVE = ["record.copy", "add_record", "constructor_records", "update", "add_bundle_document", "unified", "flattened",
          "json_container_decode", "bundle.unified", "add_record(own record)", "update(self)", "add_record(copy of own record)",
          "deserialize(content) twice"]
MUTATE = ["add_attributes", "new_record", "add_namespace", "set_default_namespace", "bundle", "add_record_from_third"]


def exact_eq(x, y):
    if isinstance(x, (list, tuple)) and isinstance(y, (list, tuple)):
        if len(x) != len(y):
            return False
        for a, b in zip(x, y):
            if not exact_eq(a, b):
                return False
        return True
    if isinstance(x, dict) and isinstance(y, dict):
        if list(x.keys()) != list(y.keys()):
            return False
        for k in x:
            if not exact_eq(x[k], y[k]):
                return False
        return True
    if x is None or y is None:
        return x is None and y is None
    return bool(x == y)


def snap(S, c):
    """observable state of a container: strict content (record order kept), declared namespaces, default namespace"""
    if c.is_document():
        return {"content": S.doc_desc(c), "ns": S.doc_ns_desc(c)}
    return {"content": {"records": S.bundle_desc(c), "bundles": []}, "ns": {"doc": S.namespaces_desc(c), "bundles": []}}


def mutable_ids(c, acc=None):
    """ids of every mutable container object reachable from a bundle/document through its own fields"""
    acc = {} if acc is None else acc

    def add(o, what):
        acc[id(o)] = what

    add(c._records, "records list")
    add(c._id_map, "id map")
    for lst in c._id_map.values():
        add(lst, "id map entry")
    nm = c._namespaces
    add(nm, "NamespaceManager")
    for f in ("_namespaces", "_uri_map", "_rename_map", "_prefix_renamed_map"):
        add(getattr(nm, f), "NamespaceManager.%s" % f)
    for r in c._records:
        add(r._attributes, "record attributes")
        for vs in r._attributes.values():
            add(vs, "attribute value set")
    if c.is_document():
        add(c._bundles, "bundles dict")
        for b in c._bundles.values():
            mutable_ids(b, acc)
    return acc


def _source(ctx, with_default):
    d = new_doc(default=(EX if with_default else None))
    d.entity("ex:" + ctx.str("id", 2, 1, "name"), {"ex:k": ctx.bigint("v")})
    d.usage("en:x", "en:a", TIMES[0], identifier="ex:" + ctx.str("id", 2, 1, "name"), other_attributes={"ex:k": 1})
    return d


def isolation(ctx):
    from prov.model import ProvDocument, ProvBundle
    from oracles import strict as S

    stub_logging_str(ctx)
    op = ctx.params["derive"]
    with_default = ctx.params.get("default", False)
    src = _source(ctx, with_default)
    if op in (6,) or ctx.params.get("bundle"):
        b = src.bundle("en:bb")
        if ctx.params.get("bundle_default"):
            b.set_default_namespace("http://bd/")
            b.entity("indefault")
        b.entity("ex:" + ctx.str("id", 2, 1, "name"), {"ex:k": 2})
        b.entity("en:inb")
    src_side = src
    # ---- derive ------------------------------------------------------------------------------------------------
    if op == 0:
        res_rec = src.get_records()[0].copy()
        res = None
    elif op == 1:
        other = new_doc()
        res_rec = other.add_record(src.get_records()[0])
        res = other
    elif op == 2:
        res = ProvDocument(records=src.get_records())
    elif op == 3:
        res = new_doc()
        res.update(src)
    elif op == 4:
        holder = new_doc()
        holder.add_bundle(src, "en:hb")
        res = holder
    elif op == 5:
        res = src.unified()
    elif op == 6:
        res = src.flattened()
    elif op == 7:
        from prov.serializers.provjson import decode_json_document, encode_json_document

        res = ProvDocument()
        decode_json_document(encode_json_document(src), res)
    elif op == 8:
        bsrc = [b for b in src.bundles][0]
        res = bsrc.unified()
        src_side = src
    elif op == 9:
        # re-adding a bundle's own record creates a NEW record (a second assertion), not an alias
        res_rec = src.add_record(src.get_records()[0])
        res = None
    elif op == 10:
        n0 = len(src.get_records())
        src.update(src)
        ctx.check(len(src.get_records()) == 2 * n0, "update(self) did not add one new record per record")
        res_rec = src.get_records()[n0]
        res = None
    elif op == 11:
        mine = src.get_records()[0].copy()
        res_rec = src.add_record(mine)
        ctx.check(res_rec is not mine, "add_record returned the caller's own record object")
        res = None
        ctx.observe("alias", res_rec is mine)
    else:
        fmt = ("json", "xml")[ctx.choose("fmt", 2)]  # the RDF reader's own limits are C07's subject
        if ctx.sym:
            # text level (C json / lxml / rdflib): the path search only enumerates the choices; the work is done on replay
            m_ = ctx.params["mutation"] if "mutation" in ctx.params else ctx.choose("mutation", len(MUTATE))
            side_ = ctx.choose("side", 2)
            ctx.checks += 1
            ctx.observe("op", [op, m_, side_])
            return
        text = src.serialize(format=fmt)
        first = ProvDocument.deserialize(content=text, format=fmt)
        res = ProvDocument.deserialize(content=text, format=fmt)
        ctx.check(res is not first, "two deserialisations of one text returned the same object")
        src = first  # the 'source' of the isolation check is the first reading
    # ---- heap check: no mutable container reachable from both sides --------------------------------------------
    if res is not None:
        a = mutable_ids(src)
        b = mutable_ids(res)
        shared = [a[i] for i in a if i in b]
        ctx.check(not shared, "source and derived object share mutable state: %s" % ", ".join(sorted(set(shared))))
    REC_OPS = (0, 1, 9, 10, 11)
    if op in REC_OPS:
        srec = src.get_records()[0]
        ctx.check(res_rec is not srec, "the derived record IS the source record")
        ctx.check(res_rec._attributes is not srec._attributes, "copied record shares its attribute map with the source record")
        for k in srec._attributes:
            ctx.check(res_rec._attributes[k] is not srec._attributes[k], "copied record shares an attribute value set")
    # ---- follow-up mutation on one side, observe the other ------------------------------------------------------
    m = ctx.params["mutation"] if "mutation" in ctx.params else ctx.choose("mutation", len(MUTATE))
    side = ctx.choose("side", 2)  # 0: mutate the derived object, observe the source; 1: the reverse
    if op in (9, 10, 11):
        ctx.assume(m == 0)
        mutated_c, observed_c = None, None
    elif op == 0:
        mutated_c, observed_c = (None, src) if side == 0 else (src, None)
    else:
        mutated_c, observed_c = (res, src) if side == 0 else (src, res)
    def first_record(c):
        recs = list(c.get_records())
        if not recs and c.is_document():
            recs = [r for b in c.bundles for r in b.get_records()]
        return recs[0]

    mutated_r = res_rec if (op in REC_OPS and side == 0) else (src.get_records()[0] if side == 1 else first_record(res))
    observed_r = (src.get_records()[0] if side == 0 else res_rec) if op in REC_OPS else None
    before_c = snap(S, observed_c) if observed_c is not None else None
    before_r = S.record_desc(observed_r) if observed_r is not None else None
    if m == 0:
        mutated_r.add_attributes({"ex:new": ctx.bigint("nv"), "prov:label": "x"})
    elif m == 1:
        ctx.assume(mutated_c is not None)
        mutated_c.entity("ex:" + ctx.str("nid", 2, 1, "name"), {"ex:k": 3})
    elif m == 2:
        ctx.assume(mutated_c is not None)
        mutated_c.add_namespace(ctx.str("p", 3, 1, "prefix"), ctx.str("u", 3, 2, "uri"))
    elif m == 3:
        ctx.assume(mutated_c is not None)
        cur = mutated_c.get_default_namespace()
        mutated_c.set_default_namespace(ctx.str("du", 3, 2, "uri") if cur is None else cur.uri)
    elif m == 4:
        ctx.assume(mutated_c is not None and mutated_c.is_document())
        nb = mutated_c.bundle("en:nb")
        nb.entity("en:e9")
    else:
        ctx.assume(mutated_c is not None)
        third = new_doc()
        third.add_namespace("zz", "http://z/")
        mutated_c.add_record(third.agent("zz:ag", {"zz:k": "v"}))
    if observed_c is not None:
        after = snap(S, observed_c)
        ctx.check(exact_eq(before_c["content"], after["content"]),
                  "%s then %s on the %s changed the CONTENT of the other side" % (DERIVE[op], MUTATE[m], ("derived object", "source")[side]))
        ctx.check(exact_eq(before_c["ns"], after["ns"]),
                  "%s then %s on the %s changed the NAMESPACES of the other side" % (DERIVE[op], MUTATE[m], ("derived object", "source")[side]))
    if observed_r is not None:
        ctx.check(S.record_eq(before_r, S.record_desc(observed_r)) and len(before_r[2]) == len(S.record_desc(observed_r)[2]),
                  "%s then %s changed the other record" % (DERIVE[op], MUTATE[m]))
    ctx.observe("op", [op, m, side])


def _shards(tier):
    out = []
    for base in _base_shards(tier):
        if base.get("bundle") or base["derive"] == 6:
            for m in range(len(MUTATE)):
                out.append(dict(base, mutation=m))
        else:
            out.append(base)
    return out


def _base_shards(tier):
    out = []
    for op in (9, 10, 11):
        out.append({"derive": op, "default": False, "mutation": 0})
    out.append({"derive": 10, "default": False, "mutation": 0, "bundle": True})
    out.append({"derive": 12, "default": False})
    out.append({"derive": 12, "default": True, "bundle": True})
    for op in (5, 8):
        out.append({"derive": op, "default": False, "bundle": True, "bundle_default": True})
    for op in range(9):
        for default in (False, True):
            if op == 8:
                out.append({"derive": op, "default": default, "bundle": True})
                continue
            out.append({"derive": op, "default": default})
            if op in (2, 3, 5, 7):
                out.append({"derive": op, "default": default, "bundle": True})
    return out


OBLIGATIONS = [
    Obligation(name="isolation", fn=isolation, shards=_shards,
               desc="after each of 13 deriving operations (incl. re-adding own records, update(self), unified() of a bundle with its own default namespace, and - on replay - reading one text twice), (i) no dict/set/list/NamespaceManager object is reachable from both the source and the "
                    "derived object, and (ii) each of 6 follow-up mutations applied to either side leaves the other side's strict content, record order, "
                    "registered namespaces and default namespace unchanged",
               bounds="source: 2 records (+ bundle with 2 records), with/without default namespace; identifiers EX+local |local|<=2 (aliasing decided by the solver, "
                      "so unified() merges or not); mutation operands symbolic (prefix<=3, uri<=3, local<=2, unbounded int)",
               assumptions=["names: prefix without ':' not starting with '_', absolute-IRI-shaped URIs, NCName-like locals",
                            "stub: str(record) for logger.debug returns a constant"],
               functions=["prov.model.ProvRecord.copy", "prov.model.ProvBundle.add_record/update/unified/_unified_records", "prov.model.ProvDocument.__init__/update/add_bundle/unified/flattened/bundle",
                          "prov.serializers.provjson.encode_json_document/decode_json_document", "prov.model.NamespaceManager.*"],
               budget_s=(150, 600), per_path_s=(20, 40)),
]
