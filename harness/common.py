"""Shared builders for harnesses.  Everything works in Stage A (symbolic leaves) and Stage B (concrete)."""
import datetime

EX = "http://e/"
EX2 = "http://f/"
EN = "http://n/"

KIND_NAMES = ["Entity", "Activity", "Generation", "Usage", "Communication", "Start", "End", "Invalidation",
              "Derivation", "Agent", "Attribution", "Association", "Delegation", "Influence", "Specialization",
              "Alternate", "Mention", "Membership"]
ELEMENTS = (0, 1, 9)
K_ENTITY, K_ACTIVITY, K_GENERATION, K_USAGE, K_AGENT = 0, 1, 2, 3, 9

TIMES = [
    datetime.datetime(2020, 1, 2, 3, 4, 5),
    datetime.datetime(2021, 6, 7, 8, 9, 10, 123456),
    datetime.datetime(2020, 1, 2, 3, 4, 5, tzinfo=datetime.timezone(datetime.timedelta(hours=5, minutes=30))),
]


def kind_type(k):
    from prov.constants import PROV

    return PROV[KIND_NAMES[k]]


def kind_cls(k):
    from prov.model import PROV_REC_CLS

    return PROV_REC_CLS[kind_type(k)]


def formal(k):
    return kind_cls(k).FORMAL_ATTRIBUTES


def is_time_attr(a):
    from prov.constants import PROV_ATTRIBUTE_LITERALS

    return a in PROV_ATTRIBUTE_LITERALS


def new_doc(default=None, second_prefix=True):
    """document with ex -> EX, and ex2 -> EX (same URI under a second prefix)"""
    from prov.model import ProvDocument

    d = ProvDocument()
    d.add_namespace("ex", EX)
    d.add_namespace("en", EN)  # fixed endpoint names live here so that they do not share Namespace._cache with ex
    if second_prefix:
        d.add_namespace("ex2", EX)
    if default is not None:
        d.set_default_namespace(default)
    return d


def spell(ctx, tag, local, allow=(0, 1, 2, 3)):
    """one of the accepted spellings of the name EX+local: 'ex:l' | QualifiedName | 'ex2:l' | full URI"""
    from prov.identifier import Namespace, QualifiedName

    i = allow[ctx.choose(tag, len(allow))]
    if i == 0:
        return "ex:" + local
    if i == 1:
        return QualifiedName(Namespace("ex", EX), local)
    if i == 2:
        return "ex2:" + local
    return EX + local


def add_record(b, k, ident, args=None, extra=None):
    fa = formal(k)
    attrs = []
    if args:
        for a, v in zip(fa, args):
            if v is not None:
                attrs.append((a, v))
    return b.new_record(kind_type(k), ident, attrs, extra)


def exc_name(e):
    return type(e).__name__


def stub_logging_str(ctx):
    """Stage A stub: ProvBundle.__eq__ formats str(record) for a logger.debug() call; that text is irrelevant to the
    properties checked where this is used and forks on every digit of a symbolic int.  Listed in evidence as a stub."""
    if ctx.sym:
        import prov.model as pm

        pm.ProvRecord.__str__ = lambda self: "<record>"
