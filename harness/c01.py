"""C01 - PROV-JSON round trip preserves every document exactly (strict, URI-level, kind-aware)."""
import itertools

from symprov.oblig import Obligation
from harness.common import stub_logging_str
from harness import docspace as DS

JSON_OPTS = [dict(indent=i, sort_keys=s, ensure_ascii=a) for i in (None, 2) for s in (False, True) for a in (True, False)]


def container_round_trip(d):
    """encode to the PROV-JSON container and decode it again WITHOUT going through text (pure Python both ways)"""
    from prov.model import ProvDocument
    from prov.serializers.provjson import decode_json_document, encode_json_document

    c = encode_json_document(d)
    d2 = ProvDocument()
    decode_json_document(c, d2)
    return d2


def text_round_trips(ctx, S, d):
    """Stage B only: the real json text, every dump option, strict comparison; + C10's independent reader"""
    from prov.model import ProvDocument

    want = S.doc_desc(d)
    for opts in JSON_OPTS:
        text = d.serialize(format="json", **opts)
        d2 = ProvDocument.deserialize(content=text, format="json")
        have = S.doc_desc(d2)
        ctx.check(S.doc_eq(want, have), "PROV-JSON text round trip (%s) changed the content: %s"
                  % (opts, S.first_difference(want, have)))
    ctx.checks += 1


def _check(ctx, d):
    from oracles import strict as S

    want = S.doc_desc(d)
    d2 = container_round_trip(d)
    have = S.doc_desc(d2)
    ctx.check(len(want["bundles"]) == len(have["bundles"]), "bundle lost or invented in the PROV-JSON round trip")
    ctx.check(S.doc_eq(want, have), "PROV-JSON container round trip changed the strict content")
    # the source is not modified by encoding
    ctx.check(S.doc_eq(want, S.doc_desc(d)), "encoding modified the source document")
    if not ctx.sym:
        text_round_trips(ctx, S, d)
    ctx.observe("content~", want)


def values(ctx):
    stub_logging_str(ctx)
    P = ctx.params
    d = DS.values_doc(ctx, P["attr"], P["vk"], P["ns"], P["bundle"], strlen=P.get("strlen", 2))
    _check(ctx, d)


def twin_bundles(ctx):
    stub_logging_str(ctx)
    _check(ctx, DS.twin_bundles_doc(ctx))


def structure(ctx):
    stub_logging_str(ctx)
    P = ctx.params
    d = DS.structure_doc(ctx, P["kind"], P.get("second"), P.get("bundle", False))
    _check(ctx, d)


def _value_shards(tier):
    out = []
    nv = len(DS.VALUE_KINDS)
    # every value kind under the plain namespace mode for every attribute-name class
    for a in range(len(DS.ATTR_NAMES) - 1):
        for vk in range(nv):
            out.append({"attr": a, "vk": vk, "ns": 0, "bundle": False})
    # attribute NAME in the default namespace (document-level and bundle-level default)
    for ns, b in ((1, False), (1, True), (2, True)):
        for vk in (0, 1, 5, 8):
            out.append({"attr": 6, "vk": vk, "ns": ns, "bundle": b})
    # every namespace mode x {document, bundle} for the name-carrying value kinds and a string
    for ns in range(1, len(DS.NS_MODES)):
        for b in (False, True):
            if DS.NS_MODES[ns] in ("bundle_default", "bundle_own_prefix") and not b:
                continue
            for vk in (0, 5, 6, 9, 12, 14, 15, 16, 18):
                out.append({"attr": 0, "vk": vk, "ns": ns, "bundle": b})
                if tier == "thorough":
                    out.append({"attr": 1, "vk": vk, "ns": ns, "bundle": b})
    if tier == "thorough":
        for vk in (0, 8, 9):
            out.append({"attr": 0, "vk": vk, "ns": 0, "bundle": False, "strlen": 4})
    return out


def _structure_shards(tier):
    out = []
    for k in range(18):
        out.append({"kind": k})
        out.append({"kind": k, "second": "same_kind"})
        out.append({"kind": k, "bundle": True})
        if tier == "thorough":
            out.append({"kind": k, "second": "entity"})
            out.append({"kind": k, "second": "same_kind", "bundle": True})
    return out


_ASSUME = ["attribute/identifier local parts match [A-Za-z][A-Za-z0-9_]*; prefixes have no ':' and do not start with '_'; URIs have absolute-IRI shape",
           "floats and datetimes from catalogues (0.1, 1e300, -0.0, 1.2345678901234567, 5.0; naive / microsecond / zoned datetimes)",
           "ints are unbounded symbolic under the contract int(str(n)) == n; 1/True/1.0 never mixed in one attribute; no NaN",
           "the container-level obligation skips json.dumps/json.loads (C code); every path witness is then pushed through the real text "
           "round trip with all 8 (indent, sort_keys, ensure_ascii) combinations on the unmodified build",
           "stub: str(record) for logger.debug returns a constant"]
_FUNCS = ["prov.serializers.provjson.encode_json_document/encode_json_container/encode_json_representation/literal_json_representation",
          "prov.serializers.provjson.decode_json_document/decode_json_container/decode_json_representation/AnonymousIDGenerator",
          "prov.model.ProvBundle.new_record/add_namespace/set_default_namespace", "prov.model.ProvRecord.add_attributes/_auto_literal_conversion",
          "prov.model.NamespaceManager.valid_qualified_name/add_namespace", "prov.model.ProvDocument.add_bundle"]

OBLIGATIONS = [
    Obligation(name="twin_bundles", fn=twin_bundles, shards=[{}],
               desc="two sibling bundles binding the same prefix (and default namespace) to symbolic, possibly different URIs and using the same "
                    "name strings, plus an optional empty bundle: decode(encode(d)) keeps every URI and every bundle",
               bounds="2-3 bundles, one record each; URIs |u|<=3", assumptions=_ASSUME, functions=_FUNCS, budget_s=(150, 600), per_path_s=(20, 40)),
    Obligation(name="values", fn=values, shards=_value_shards,
               desc="decode(encode(d)) has the same strict content as d for one entity carrying one attribute: 6 attribute-name classes x 15 value kinds, "
                    "and 5 namespace modes (default namespaces at document/bundle level, clashing prefix, bundle-own prefixes) x {document, bundle} with symbolic URIs/prefixes",
               bounds={"quick": "string values |s|<=2 any code points (no surrogates), URIs/prefixes |.|<=3, locals |l|<=2, unbounded ints",
                       "thorough": "additionally string values |s|<=4 and the namespace modes with prov:type"},
               assumptions=_ASSUME, functions=_FUNCS, shims=["json text boundary: crossed only in Stage B with concrete witnesses"],
               budget_s=(150, 600), per_path_s=(20, 40)),
    Obligation(name="structure", fn=structure, shards=_structure_shards,
               desc="decode(encode(d)) == d strictly for each of the 18 record kinds x every presence mask of optional formal arguments x identified/anonymous "
                    "x optional extra attribute, with a second record (same or different identifier: repeated identifiers become JSON arrays), in documents and bundles",
               bounds="1-2 records; identifier locals |l|<=2 (equal/different decided by the solver); times from a 3-element catalogue",
               assumptions=_ASSUME, functions=_FUNCS, budget_s=(150, 600), per_path_s=(20, 40)),
]
