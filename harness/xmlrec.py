"""Build-side stand-in for lxml.etree (Stage A observation point): records elements, attributes and text with
symbolic contents so that ProvXMLSerializer.serialize_bundle runs symbolically and its content-dependent branches
(truthiness of the text, startswith('prov:'), 'time' in localpart, subtype lookup ...) are decided by the solver."""


class _Attrib:
    def __init__(self):
        self.items_ = []

    def __setitem__(self, k, v):
        for i, (kk, _) in enumerate(self.items_):
            if kk == k:
                self.items_[i] = (k, v)
                return
        self.items_.append((k, v))

    def __contains__(self, k):
        return any(kk == k for kk, _ in self.items_)

    def __getitem__(self, k):
        for kk, v in self.items_:
            if kk == k:
                return v
        raise KeyError(k)

    def items(self):
        return list(self.items_)

    def __bool__(self):
        return bool(self.items_)


class Elem:
    def __init__(self, tag, attrib=None, nsmap=None, parent=None):
        self.tag = tag
        self.attrib = _Attrib()
        if attrib:
            for k in attrib:
                self.attrib[k] = attrib[k]
        self.nsmap_own = nsmap
        self.text = None
        self.children = []
        self.parent = parent


class Recorder:
    def __init__(self):
        self.roots = []

    def Element(self, tag, attrib=None, nsmap=None, **kw):
        e = Elem(tag, attrib, nsmap)
        self.roots.append(e)
        return e

    def SubElement(self, parent, tag, attrib=None, nsmap=None, **kw):
        e = Elem(tag, attrib, nsmap, parent)
        parent.children.append(e)
        return e

    def ElementTree(self, root):
        return root
