"""C08 - unified() merges exactly the records sharing an identifier (per kind), losing nothing."""
from symprov.oblig import Obligation
from harness.common import EX, TIMES, add_record, new_doc

# record shapes: (name, kind index, identified, spelling prefix, formal args, extra)
#   formal args / extra are built in _make; 'ivar'/'svar' mean a fresh symbolic int / short string value
SHAPES = [
    ("entity+int", 0, True, "ex:", None, "ivar"),
    ("entity via ex2", 0, True, "ex2:", None, None),
    ("agent+str", 9, True, "ex:", None, "svar"),
    ("activity T0", 1, True, "ex:", [TIMES[0], None], None),
    ("activity T1+int", 1, True, "ex:", [TIMES[1], None], "ivar"),
    ("activity no time", 1, True, "ex2:", [None, None], None),
    ("generation a T0", 2, True, "ex:", ["en:a", None, TIMES[0]], None),
    ("generation b", 2, True, "ex:", ["en:b", "en:x", None], "ivar"),
    ("usage anonymous", 3, False, None, ["en:x", "en:a", None], "ivar"),
    ("usage identified", 3, True, "ex:", ["en:x", "en:a", None], None),
]
MENU = {"full": list(range(len(SHAPES))), "mid": [0, 2, 3, 4, 6, 7, 8], "small": [0, 2, 4, 7], "ea": [0, 2], "gu": [7, 9]}


def _make(ctx, b, shape_idx, shared_id=None):
    name, k, identified, pfx, args, extra = SHAPES[shape_idx]
    ident = None
    if identified:
        ident = pfx + (shared_id if shared_id is not None else ctx.str("id", 2, 1, "name"))
    ex = None
    if extra == "ivar":
        ex = [("ex:k", ctx.bigint("v"))]
    elif extra == "svar":
        ex = [("ex:k", ctx.str("s", 1, 0, "ascii"))]
    return add_record(b, k, ident, args, ex)


def _fvals(desc):
    """formal (single-valued) attributes of a record_desc as list of (attr uri, value_desc)"""
    from prov.constants import PROV_ATTRIBUTES

    uris = [a.uri for a in PROV_ATTRIBUTES]
    return [(a, v) for a, v in desc[2] if a in uris]


def unify(ctx):
    from prov.model import ProvException
    from oracles import strict as S

    n_top, n_bun = ctx.params["n_top"], ctx.params["n_bundle"]
    menu = MENU[ctx.params["menu"]]
    src = new_doc()
    conts = [src]
    if n_bun:
        conts.append(src.bundle("en:bb"))
    first = ctx.params.get("first")
    pattern = ctx.params.get("pattern")
    if pattern:
        # fixed shapes; the records marked A share one symbolic identifier, those marked B another (A == B decided by z3)
        ids = {"A": ctx.str("idA", 2, 1, "name"), "B": ctx.str("idB", 2, 1, "name")}
        for si, which in pattern:
            _make(ctx, src, si, ids[which])
        n_top = n_bun = 0
    for ci, (c, cnt) in enumerate(zip(conts, (n_top, n_bun))):
        for i in range(cnt):
            if first is not None and ci == 0 and i == 0:
                si = first
            elif first is not None and ci == 1 and i == 0 and n_top == 0:
                si = first
            else:
                si = menu[ctx.choose("shape", len(menu))]
            _make(ctx, c, si)
    # read-only queries before unifying: looking up identifiers the document does not hold must not change the result
    nl = (0, 2, 3)[ctx.choose("absent_lookups", 3)] if pattern else (ctx.choose("absent_lookups", 2) if (n_top + n_bun) == 2 else 0)
    for i in range(nl):
        for c in conts:
            ctx.check(len(c.get_record("en:zz%d" % i)) == 0, "get_record() of an absent identifier returned records")
    _verify(ctx, S, src, "" if nl == 0 else "after %d look-ups of absent identifiers: " % nl)
    # second round: modify a record of the source in place (no record added) and unify again - the result must
    # reflect the modification (no stale state kept between calls)
    if ctx.params.get("second_round", (n_top + n_bun) <= 2):
        recs = src.get_records()
        if recs:
            recs[0].add_attributes({"ex:late": ctx.bigint("late")})
            _verify(ctx, S, src, "after an in-place modification and a second unified(): ")


def _verify(ctx, S, src, tag):
    from prov.model import ProvException

    before = S.doc_desc(src)
    ns_before = S.doc_ns_desc(src)
    # ---- specification on the descriptors: conflict iff same identifier, same kind, different value of a formal attr
    conflict = False
    for bdesc in [before["records"]] + [b[1] for b in before["bundles"]]:
        for i in range(len(bdesc)):
            for j in range(i + 1, len(bdesc)):
                a, b = bdesc[i], bdesc[j]
                if a[1] is None or b[1] is None or a[0] != b[0]:
                    continue
                if a[1] == b[1]:
                    for an, av in _fvals(a):
                        for bn, bv in _fvals(b):
                            if an == bn and not S.vdesc_eq(av, bv):
                                conflict = True
    try:
        u = src.unified()
        raised = None
    except ProvException as e:
        u = None
        raised = e
    after = S.doc_desc(src)
    ctx.check(S.doc_eq(before, after) and len(before["records"]) == len(after["records"]),
              "unified() changed the source document's content")
    ctx.check(ns_before == S.doc_ns_desc(src), tag + "unified() changed the source document's namespaces")
    if conflict:
        ctx.check(raised is not None, tag + "two same-kind records with one identifier disagree on a formal attribute but "
                                      "unified() did not raise ProvException")
        ctx.observe("raised2" if tag else "raised", True)
        return
    ctx.check(raised is None, tag + "unified() raised ProvException although no two same-kind records with one identifier "
                              "disagree on a formal attribute")
    res = S.doc_desc(u)
    ctx.check(len(res["bundles"]) == len(before["bundles"]), tag + "unified() lost or added a bundle")
    pairs = [(before["records"], res["records"])]
    for (bid, brecs), (rid, rrecs) in zip(before["bundles"], res["bundles"]):
        ctx.check(bid == rid, tag + "unified() changed a bundle identifier")
        pairs.append((brecs, rrecs))
    for srecs, urecs in pairs:
        # every identified source record has exactly one result record of its kind with its identifier, holding
        # all its attributes; anonymous records are kept as they are
        positions = []
        for s in srecs:
            if s[1] is None:
                hits = [j for j, r in enumerate(urecs) if r[1] is None and S.record_eq(r, s)]
                ctx.check(len(hits) >= 1, tag + "an anonymous record disappeared in unified()")
                continue
            hits = [j for j, r in enumerate(urecs) if r[0] == s[0] and r[1] is not None and r[1] == s[1]]
            ctx.check(len(hits) == 1, tag + "identifier occurs in %d result records of kind %s (expected exactly 1)"
                      % (len(hits), s[0].rsplit("#")[-1]))
            r = urecs[hits[0]]
            for att in s[2]:
                ctx.check(any(S.attr_eq(att, ra) for ra in r[2]), tag + "an attribute value was lost in the merged record")
            positions.append(hits[0])
        # nothing invented: every result record / attribute comes from a source record of that identifier and kind
        n_anon_s = len([s for s in srecs if s[1] is None])
        n_anon_u = len([r for r in urecs if r[1] is None])
        ctx.check(n_anon_s == n_anon_u, tag + "number of anonymous records changed")
        for r in urecs:
            if r[1] is None:
                continue
            group = [s for s in srecs if s[0] == r[0] and s[1] is not None and s[1] == r[1]]
            ctx.check(len(group) >= 1, tag + "unified() invented a record (kind/identifier not in the source)")
            for ra in r[2]:
                ctx.check(any(S.attr_eq(ra, sa) for s in group for sa in s[2]),
                          "merged record holds an attribute value none of its sources has")
        # first-occurrence order
        seen = []
        for p in positions:
            if p not in seen:
                seen.append(p)
        ctx.check(seen == sorted(seen), tag + "unified() does not keep first-occurrence order")
    # idempotent
    uu = u.unified()
    ctx.check(S.doc_eq(S.doc_desc(uu), res), tag + "unified() is not idempotent")
    ctx.observe(("result2~" if tag else "result~"), res)




def _shards(tier):
    out = []
    if tier == "quick":
        out.append({"n_top": 1, "n_bundle": 0, "menu": "full"})
        for f in MENU["full"]:
            out.append({"n_top": 2, "n_bundle": 0, "menu": "full", "first": f})
        for f in MENU["small"]:
            out.append({"n_top": 3, "n_bundle": 0, "menu": "small", "first": f})
        for f in MENU["mid"]:
            out.append({"n_top": 0, "n_bundle": 2, "menu": "mid", "first": f})
        for f in MENU["small"]:
            out.append({"n_top": 1, "n_bundle": 2, "menu": "small", "first": f})
        # two kinds x two records each under (possibly) coinciding identifiers, in both interleavings
        for a, b in ((0, 2), (7, 9), (3, 4)):
            out.append({"n_top": 0, "n_bundle": 0, "menu": "small", "pattern": [[a, "A"], [a, "A"], [b, "B"], [b, "B"]]})
            out.append({"n_top": 0, "n_bundle": 0, "menu": "small", "pattern": [[a, "A"], [b, "B"], [a, "A"], [b, "B"]]})
    else:
        for f in MENU["full"]:
            out.append({"n_top": 2, "n_bundle": 0, "menu": "full", "first": f})
            out.append({"n_top": 3, "n_bundle": 0, "menu": "mid", "first": f})
            out.append({"n_top": 0, "n_bundle": 2, "menu": "full", "first": f})
        for f in MENU["mid"]:
            out.append({"n_top": 1, "n_bundle": 2, "menu": "mid", "first": f})
            out.append({"n_top": 2, "n_bundle": 2, "menu": "small", "first": f})
        for f in MENU["small"]:
            out.append({"n_top": 4, "n_bundle": 0, "menu": "small", "first": f})
    return out


OBLIGATIONS = [
    Obligation(
        name="unify",
        fn=unify,
        shards=_shards,
        desc="unified() raises ProvException iff two same-kind records with one identifier disagree on a formal "
             "attribute; otherwise exactly one record per (identifier, kind) holding the union of attributes, anonymous "
             "records kept, first-occurrence order, bundles kept, idempotent, source unchanged",
        bounds={"quick": "top level 1-3 records / bundle 0-2 records from 10 record shapes (3 records: 4 shapes); identifiers EX+local |local|<=2 "
                         "under prefixes ex/ex2 (all aliasing patterns); symbolic int / 1-char string attribute values; times from a 2-element catalogue",
                "thorough": "up to 4 top-level records or 2+2 with a bundle; 3 records from 7 shapes"},
        assumptions=["identifier local parts match [A-Za-z][A-Za-z0-9_]*", "times are catalogue values (equal/different decided concretely)"],
        functions=["prov.model.ProvBundle._unified_records/unified", "prov.model.ProvDocument.unified", "prov.model.ProvRecord.copy/add_attributes",
                   "prov.model.ProvBundle.add_record/new_record/_add_record", "prov.model.ProvDocument.add_bundle"],
        budget_s=(240, 900),
        per_path_s=(20, 40),
    )
]
