"""C02 - PROV-XML round trip preserves every XML-expressible document exactly, for both force_types values."""
from symprov.oblig import Obligation
from harness.common import stub_logging_str
from harness import docspace as DS


def _writer_paths(ctx, d, force_types):
    """Stage A: run the real serialize_bundle against the etree recorder with symbolic contents"""
    import prov.serializers.provxml as px
    from harness.xmlrec import Recorder

    rec = Recorder()
    real = px.etree
    px.etree = rec
    try:
        ser = px.ProvXMLSerializer(d)
        root = ser.serialize_bundle(bundle=d, force_types=force_types)
        for b in d.bundles:
            ser.serialize_bundle(bundle=b, element=root, force_types=force_types)
    finally:
        px.etree = real
    return root


def xml_round_trip_check(ctx, d, force_types, independent=False):
    """Stage B: real lxml both ways (C02) or real writer + independent reader (C10)"""
    import io
    from prov.model import ProvDocument
    from oracles import strict as S

    want = S.doc_desc(d)
    text = d.serialize(format="xml", force_types=force_types)
    if independent:
        from oracles import provxml_reader as R

        try:
            have = R.read(text)
        except R.XmlSpecViolation as e:
            ctx.fail("emitted PROV-XML breaks a structural rule of the specification: %s" % e.args[0])
        ctx.check(S.doc_eq(want, have), "an independent PROV-XML reader recovers different content (force_types=%s): %s"
                  % (force_types, S.first_difference(want, have)))
        return
    try:
        d2 = ProvDocument.deserialize(content=text, format="xml")
    except Exception as e:
        ctx.fail("reading back the emitted PROV-XML raised %s: %s" % (type(e).__name__, e))
    have = S.doc_desc(d2)
    ctx.check(S.doc_eq(want, have), "PROV-XML round trip (force_types=%s) changed the content: %s"
              % (force_types, S.first_difference(want, have)))
    ctx.check(S.doc_eq(want, S.doc_desc(d)), "serialising to PROV-XML modified the source document")


def _check(ctx, d, independent=False):
    ft = ctx.bool("force_types")
    if ctx.sym:
        _writer_paths(ctx, d, ft)
        ctx.checks += 1
    else:
        xml_round_trip_check(ctx, d, ft, independent)
    ctx.observe("ft", ft)


def values(ctx):
    stub_logging_str(ctx)
    P = ctx.params
    d = DS.values_doc(ctx, P["attr"], P["vk"], P["ns"], P["bundle"], strlen=P.get("strlen", 2), text_kind="text")
    xml_guards(ctx, d, P)
    _check(ctx, d)


def xml_guards(ctx, d, P):
    """the quantifier's exclusions"""
    # prov:label values are plain or language-tagged strings
    ctx.assume(DS.VALUE_KINDS[P["vk"]] != "xsd_qname_literal")  # the quantifier excludes literals typed xsd:QName
    if DS.ATTR_NAMES[P["attr"]] == "prov:label":
        ctx.assume(DS.VALUE_KINDS[P["vk"]] in ("str", "lang_literal", "empty_str", "big_text"))


def twin_bundles(ctx):
    stub_logging_str(ctx)
    _check(ctx, DS.twin_bundles_doc(ctx))


def structure(ctx):
    stub_logging_str(ctx)
    P = ctx.params
    d = DS.structure_doc(ctx, P["kind"], P.get("second"), P.get("bundle", False))
    _check(ctx, d)


SUBTYPES = ["Revision", "Quotation", "PrimarySource", "SoftwareAgent", "Person", "Organization", "Plan", "Collection",
            "EmptyCollection", "Bundle", "Entity", "Agent", "Derivation", "Activity"]
SUBTYPE_BASE = {"Revision": 8, "Quotation": 8, "PrimarySource": 8, "SoftwareAgent": 9, "Person": 9, "Organization": 9,
                "Plan": 0, "Collection": 0, "EmptyCollection": 0, "Bundle": 0, "Entity": 0, "Agent": 9, "Derivation": 8, "Activity": 1}


def subtypes(ctx):
    """prov:type values that name a PROV subtype select the element name; they must map back to the same base record + type"""
    from prov.constants import PROV
    from prov.model import ProvDocument
    from harness.common import EX, add_record

    stub_logging_str(ctx)
    st = SUBTYPES[ctx.params["subtype"]]
    k = SUBTYPE_BASE[st]
    d = ProvDocument()
    d.add_namespace("ex", EX)
    args = ["ex:a0", "ex:a1", None, None, None] if k == 8 else None
    extra = [("prov:type", PROV[st])]
    if ctx.bool("second_type"):
        extra.append(("prov:type", PROV[SUBTYPES[ctx.choose("other", len(SUBTYPES))]]))
    if ctx.bool("plain_type"):
        extra.append(("prov:type", ctx.str("t", 2, 0, "text")))
    if ctx.bool("other_attr"):
        extra.append(("ex:k", ctx.bigint("v")))
    add_record(d, k, "ex:r" if (k != 8 or ctx.bool("identified")) else None, args, extra)
    _check(ctx, d)


def _value_shards(tier):
    from harness.c01 import _value_shards as vs

    out = []
    for x in vs(tier):
        x = dict(x, prefix_kind="name")
        if DS.VALUE_KINDS[x["vk"]] == "xsd_qname_literal":
            continue
        if DS.ATTR_NAMES[x["attr"]] == "prov:label" and DS.VALUE_KINDS[x["vk"]] not in ("str", "lang_literal", "empty_str", "big_text", "hostile_str", "hostile_lang_literal", "lang_literal_mixed_case_tag"):
            continue
        out.append(x)
    return out


def _structure_shards(tier):
    from harness.c01 import _structure_shards as ss

    return ss(tier)


_ASSUME = ["attribute-name and identifier local parts are NCNames ([A-Za-z][A-Za-z0-9_]*); prefixes likewise",
           "string values contain only XML 1.0 characters other than carriage return", "prov:label values are plain or language-tagged strings",
           "no literal typed xsd:QName", "floats/datetimes from catalogues; ints via the contract int(str(n)) == n"]
_FUNCS = ["prov.serializers.provxml.ProvXMLSerializer.serialize_bundle/_derive_record_label (symbolically, against the etree recorder)",
          "prov.model.sorted_attributes", "prov.serializers.provxml.deserialize/deserialize_subtree/_extract_attributes/xml_qname_to_QualifiedName (concretely, real lxml)"]
_SHIMS = ["lxml.etree build API replaced by a recorder in Stage A; the real lxml writer and reader run in Stage B on each path witness"]

PRELOAD = ("prov.model", "prov.serializers.provxml", "prov.serializers.provjson")

OBLIGATIONS = [
    Obligation(name="twin_bundles", fn=twin_bundles, shards=[{}],
               desc="sibling bundles binding one prefix to different URIs (+ empty bundle) through the XML writer and reader",
               bounds="2-3 bundles; URIs |u|<=3", assumptions=_ASSUME, functions=_FUNCS, shims=_SHIMS, best_verdict="PATH_COMPLETE",
               budget_s=(150, 600), per_path_s=(30, 60)),
    Obligation(name="values", fn=values, shards=_value_shards,
               desc="Stage A exhausts the paths of the XML writer for one entity with one attribute (6 name classes x 15 value kinds x 5 namespace modes x force_types), the "
                    "solver choosing contents that reach each branch (empty text, 'prov:'-prefixed text, ...); Stage B serialises every witness with real lxml, reads it back and compares strictly",
               bounds="as C01.values with XML-safe strings |s|<=2", assumptions=_ASSUME, functions=_FUNCS, shims=_SHIMS,
               best_verdict="PATH_COMPLETE", budget_s=(200, 600), per_path_s=(30, 60)),
    Obligation(name="structure", fn=structure, shards=_structure_shards,
               desc="same for the 18 record kinds x presence masks x identified/anonymous x repeated identifiers x documents/bundles x force_types",
               bounds="as C01.structure", assumptions=_ASSUME, functions=_FUNCS, shims=_SHIMS, best_verdict="PATH_COMPLETE",
               budget_s=(200, 600), per_path_s=(30, 60)),
    Obligation(name="subtypes", fn=subtypes, shards=[{"subtype": i} for i in range(len(SUBTYPES))],
               desc="prov:type values naming a PROV subtype (Revision ... Bundle) select the subtype element; with further prov:type values (another subtype, a plain string) and "
                    "other attributes the record must come back as the same base record with the same prov:type set",
               bounds="one record, 1-3 prov:type values, optional extra attribute, force_types both", assumptions=_ASSUME, functions=_FUNCS, shims=_SHIMS,
               best_verdict="PATH_COMPLETE", budget_s=(240, 600), per_path_s=(30, 60)),
]
