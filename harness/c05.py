"""C05 - records stay in normal form: formal attributes single-valued, typed, normalised."""
import datetime

from symprov.oblig import Obligation
from harness.common import EX, KIND_NAMES, TIMES, formal, is_time_attr, kind_cls, kind_type, new_doc

FACTORY = {0: "entity", 1: "activity", 2: "generation", 3: "usage", 4: "communication", 5: "start", 6: "end",
           7: "invalidation", 8: "derivation", 9: "agent", 10: "attribution", 11: "association", 12: "delegation",
           13: "influence", 14: "specialization", 15: "alternate", 16: "mention", 17: "membership"}
NO_ID_FACTORY = (14, 15, 16, 17)
ENTRY = ["new_record_dict", "new_record_pairs", "factory", "add_attributes_after"]
ISO = ["2020-01-02T03:04:05", "2021-06-07T08:09:10.123456", "2020-01-02T03:04:05+05:30"]


def _ref_value(ctx, d, tag, local, force_rep=None):
    """a reference given as QualifiedName / 'ex:l' string / record object / 'ex2:l' string"""
    from prov.identifier import Namespace, QualifiedName

    rep = force_rep if force_rep is not None else ctx.choose(tag, 4)
    if rep == 0:
        return QualifiedName(Namespace("ex", EX), local)
    if rep == 1:
        return "ex:" + local
    if rep == 2:
        holder = new_doc()
        return holder.entity("ex:" + local)
    return "ex2:" + local


def _time_value(ctx, tag, idx):
    """a time given as datetime or ISO string"""
    return TIMES[idx] if ctx.choose(tag, 2) == 0 else ISO[idx]


def _check_normal(ctx, rec, expected):
    """expected: list aligned with FORMAL_ATTRIBUTES of None | ('ref', uri) | ('time', datetime)"""
    from prov.identifier import QualifiedName

    fa = rec.FORMAL_ATTRIBUTES
    for a, exp in zip(fa, expected):
        vals = list(rec.get_attribute(a))
        if exp is None:
            ctx.check(len(vals) == 0, "formal attribute holds a value that was never given")
            continue
        ctx.check(len(vals) == 1, "formal attribute %s holds %d values" % (a, len(vals)))
        v = vals[0]
        if exp[0] == "ref":
            ctx.check(isinstance(v, QualifiedName), "reference-valued formal attribute %s holds a %s" % (a, type(v).__name__))
            ctx.check(v.uri == exp[1], "reference-valued formal attribute denotes another URI")
        else:
            ctx.check(isinstance(v, datetime.datetime), "time-valued formal attribute %s holds a %s" % (a, type(v).__name__))
            ctx.check(v == exp[1], "time-valued formal attribute holds another instant")
    # args / formal_attributes views agree
    for (a, v), exp in zip(rec.formal_attributes, expected):
        ctx.check((v is None) == (exp is None), "formal_attributes view disagrees with the stored attributes")


def _given(ctx, d, k, focus, mask_all=None):
    """arguments for the formal attributes of kind k: the `focus` argument is symbolic in all representations, the
    others are fixed 'ex:aN' strings / catalogue datetimes; optional arguments are present or absent (all masks)"""
    fa = formal(k)
    given, expected = [], []
    for i, a in enumerate(fa):
        optional = (k == 1 or i >= 2)
        if not optional:
            present = True
        elif mask_all is not None:
            present = mask_all
        elif i == focus:
            present = True
        else:
            present = ctx.bool("present")
        if not present:
            given.append(None)
            expected.append(None)
        elif is_time_attr(a):
            if i == focus:
                ti = ctx.choose("time", 2)
                given.append(_time_value(ctx, "timerep", ti))
            else:
                ti = i % 2
                given.append(TIMES[ti])
            expected.append(("time", TIMES[ti]))
        else:
            if i == focus:
                loc = ctx.str("ref", 2, 1, "name")
                given.append(_ref_value(ctx, d, "refrep", loc))
                expected.append(("ref", EX + loc))
            else:
                given.append("en:a%d" % i)
                expected.append(("ref", "http://n/a%d" % i))
    return given, expected


def _create(d, k, entry, ident, given):
    fa = formal(k)
    if entry == 0:
        return d.new_record(kind_type(k), ident, dict((a, v) for a, v in zip(fa, given) if v is not None))
    if entry == 1:
        return d.new_record(kind_type(k), ident, [(a, v) for a, v in zip(fa, given)])
    if entry == 2:
        f = getattr(d, FACTORY[k])
        if k in (0, 9):
            return f(ident)
        if k == 1:
            return f(ident, given[0], given[1])
        if k in NO_ID_FACTORY:
            return f(*given)
        return f(*given, identifier=ident)
    pairs = [(a, v) for a, v in zip(fa, given)]
    cut = 0 if k == 1 else 2
    rec = d.new_record(kind_type(k), ident, pairs[:cut])
    rec.add_attributes(pairs[cut:])
    return rec


def construct(ctx):
    from oracles import strict as S

    k, entry, focus = ctx.params["kind"], ctx.params["entry"], ctx.params["focus"]
    d = new_doc()
    given, expected = _given(ctx, d, k, focus)
    if k in (0, 1, 9):
        ident = "en:r"
    elif entry == 2 and k in NO_ID_FACTORY:
        ident = None
    else:
        ident = "en:r" if (entry + focus) % 2 == 0 else None
    rec = _create(d, k, entry, ident, given)
    _check_normal(ctx, rec, expected)
    ctx.observe("rec~", S.record_desc(rec))


def second_value(ctx):
    from prov.model import ProvException
    from oracles import strict as S

    k, j = ctx.params["kind"], ctx.params["again"]
    d = new_doc()
    fa = formal(k)
    given, expected = _given(ctx, d, k, j, mask_all=ctx.bool("all_present"))
    rec = _create(d, k, ctx.params["entry"], "en:r", given)
    _check_normal(ctx, rec, expected)
    before = S.record_desc(rec)
    a = fa[j]
    if is_time_attr(a):
        ti = ctx.choose("time2", 2)
        newv = _time_value(ctx, "timerep2", ti)
        same = expected[j] is not None and expected[j][1] == TIMES[ti]
        newexp = ("time", TIMES[ti])
    else:
        loc2 = ctx.str("ref2", 2, 1, "name")
        newv = _ref_value(ctx, d, "refrep2", loc2)
        same = expected[j] is not None and bool(expected[j][1] == EX + loc2)
        newexp = ("ref", EX + loc2)
    form = ctx.choose("form", 2)
    try:
        rec.add_attributes({a: newv} if form == 0 else [(a, newv)])
        raised = False
    except ProvException:
        raised = True
    if expected[j] is None:
        ctx.check(not raised, "adding a first value for a formal attribute raised ProvException")
        expected[j] = newexp
        _check_normal(ctx, rec, expected)
    elif same:
        ctx.check(not raised, "re-adding the same value of a formal attribute raised ProvException")
        ctx.check(S.record_eq(before, S.record_desc(rec)), "re-adding the same value changed the record")
        _check_normal(ctx, rec, expected)
    else:
        ctx.check(raised, "a second, different value for a formal attribute was accepted")
        ctx.check(S.record_eq(before, S.record_desc(rec)), "the refused add_attributes call changed the record")
    ctx.observe("rec~", S.record_desc(rec))


def same_call(ctx):
    """two values for one formal attribute arriving in ONE call (pair list): equal values collapse, different values raise"""
    from prov.model import ProvException
    from oracles import strict as S

    k, j, entry = ctx.params["kind"], ctx.params["again"], ctx.params["entry"]
    d = new_doc()
    fa = formal(k)
    given, expected = _given(ctx, d, k, j, mask_all=True)
    a = fa[j]
    if is_time_attr(a):
        ti = ctx.choose("time2", 2)
        newv = _time_value(ctx, "timerep2", ti)
        same = expected[j][1] == TIMES[ti]
    else:
        loc2 = ctx.str("ref2", 2, 1, "name")
        newv = _ref_value(ctx, d, "refrep2", loc2)
        same = bool(expected[j][1] == EX + loc2)
    pairs = [(x, v) for x, v in zip(fa, given)]
    pos = ctx.choose("pos", 2)
    pairs = pairs + [(a, newv)] if pos == 0 else [(a, newv)] + pairs
    rec = None
    try:
        if entry == 0:
            rec = d.new_record(kind_type(k), "en:r", pairs)
        elif entry == 1:
            # formal arguments through the factory's positional parameters, the extra value through other_attributes
            formal_d = dict((x, v) for x, v in zip(fa, given))
            rec = d.new_record(kind_type(k), "en:r", formal_d, [(a, newv)])
        else:
            cut = [p for p in pairs if p[0] != a]
            rec = d.new_record(kind_type(k), "en:r", cut)
            before = S.record_desc(rec)
            rec.add_attributes([p for p in pairs if p[0] == a])
        raised = False
    except ProvException:
        raised = True
    if same:
        ctx.check(not raised, "the same value twice for a formal attribute in one call raised ProvException")
        _check_normal(ctx, rec, expected)
    else:
        ctx.check(raised, "two different values for a formal attribute given in one call were accepted")
        if entry == 2:
            # the refused call must not leave a second value behind
            for x in rec.FORMAL_ATTRIBUTES:
                ctx.check(len(rec.get_attribute(x)) <= 1, "a refused add_attributes call left a formal attribute with two values")
        else:
            ctx.check(len(list(d.get_records())) == 0, "a refused constructor call left a record in the bundle")
    ctx.observe("raised", raised)


SUBTYPE_FACTORIES = [("revision", "Revision"), ("quotation", "Quotation"), ("primary_source", "PrimarySource"), ("collection", "Collection")]


def subtype_factory(ctx):
    """revision()/quotation()/primary_source()/collection() add their PROV type to - not instead of - the caller's prov:type values"""
    from prov.constants import PROV

    fi = ctx.params["factory"]
    fname, tname = SUBTYPE_FACTORIES[fi]
    d = new_doc()
    l1 = ctx.str("t", 2, 1, "name")
    q1 = d.valid_qualified_name("ex:" + l1)
    from prov.constants import PROV_TYPE

    form = ctx.choose("form", 6)
    other = [{"prov:type": q1}, [("prov:type", q1)], [("prov:type", q1), ("prov:type", PROV[tname])], {"ex:k": 1},
             {PROV_TYPE: q1}, [(PROV_TYPE, q1)]][form]
    if fname == "collection":
        rec = d.collection("en:c", other)
    else:
        rec = getattr(d, fname)("en:g", "en:u", "en:act", None, None, "en:r" if ctx.bool("ident") else None, other)
    types = sorted(t.uri for t in rec.get_asserted_types())
    want = sorted(set([PROV[tname].uri] + ([EX + l1] if form != 3 else [])))
    ctx.check(len(types) == len(want), "%s(): asserted types are %d values, expected %d" % (fname, len(types), len(want)))
    for t, w in zip(types, want):
        ctx.check(t == w, "%s(): a caller-supplied prov:type was lost or replaced" % fname)
    if fname != "collection":
        _check_normal(ctx, rec, [("ref", "http://n/g"), ("ref", "http://n/u"), ("ref", "http://n/act"), None, None])
    if form == 3:
        ctx.check(list(rec.get_attribute("ex:k")) == [1], "%s(): other attribute lost" % fname)
    ctx.observe("types", len(types))


INT_LEX = [("+5", 5), ("0042", 42), ("-0", 0), ("+0", 0), ("-007", -7), ("+2147483648", 2147483648)]
LIT_KINDS = ["xsd:int", "xsd:long", "xsd:string", "xsd:anyURI", "xsd:boolean", "xsd:double", "xsd:dateTime"]
BOOL_LEX = [("true", True), ("false", False), ("1", True), ("0", False)]
DOUBLE_LEX = [("0.1", 0.1), ("1e300", 1e300), ("-0.0", -0.0), ("1.2345678901234567", 1.2345678901234567), ("5", 5.0)]


def literal_normalisation(ctx):
    """a value supplied as Literal(lexical, native datatype) is stored as the Python value a direct assignment stores"""
    from prov.model import Literal
    from prov.identifier import Identifier
    import prov.constants as pc
    from oracles import strict as S

    lk = ctx.params["lit"]
    entry = ctx.params["entry"]
    d = new_doc()
    dt = {"xsd:int": pc.XSD_INT, "xsd:long": pc.XSD_LONG, "xsd:string": pc.XSD_STRING, "xsd:anyURI": pc.XSD_ANYURI,
          "xsd:boolean": pc.XSD_BOOLEAN, "xsd:double": pc.XSD_DOUBLE, "xsd:dateTime": pc.XSD_DATETIME}[LIT_KINDS[lk]]
    name = LIT_KINDS[lk]
    if name in ("xsd:int", "xsd:long"):
        il = ctx.choose("intlex", len(INT_LEX) + 1)
        if il == 0:
            n = ctx.bigint("n")
            lex, native = str(n), n
        else:
            lex, native = INT_LEX[il - 1]  # signed / zero-padded lexical forms of xsd:integer types
    elif name == "xsd:string":
        s = ctx.str("s", 3, 0, "any")
        lex, native = s, s
    elif name == "xsd:anyURI":
        u = ctx.str("u", 3, 0, "any")
        lex, native = u, Identifier(u)
    elif name == "xsd:boolean":
        lex, native = BOOL_LEX[ctx.choose("b", len(BOOL_LEX))]
    elif name == "xsd:double":
        lex, native = DOUBLE_LEX[ctx.choose("f", len(DOUBLE_LEX))]
    else:
        i = ctx.choose("t", len(ISO))
        lex, native = ISO[i], TIMES[i]
    attr = ("ex:k", "prov:value", "prov:type")[ctx.choose("attr", 3)]
    lit = Literal(lex, dt)
    if entry == 0:
        a = d.entity("ex:a", {attr: lit})
        b = d.entity("ex:a", {attr: native})
    elif entry == 1:
        a = d.entity("ex:a", [(attr, lit)])
        b = d.entity("ex:a", [(attr, native)])
    else:
        a = d.entity("ex:a")
        a.add_attributes({attr: lit})
        b = d.entity("ex:a")
        b.add_attributes([(attr, native)])
    da, db = S.record_desc(a), S.record_desc(b)
    ctx.check(S.record_eq(da, db), "Literal(lexical, %s) is stored differently from the native value" % name)
    ctx.check(len(da[2]) == 1, "one attribute value expected")
    # other attributes accumulate a SET: the same value again is a no-op, both spellings together are one value
    a.add_attributes({attr: native})
    a.add_attributes([(attr, lit)])
    ctx.check(S.record_eq(S.record_desc(a), db), "re-adding the same value (other spelling) created a second value")
    ctx.observe("stored~", da)


def set_time(ctx):
    """ProvActivity.set_time: afterwards start/end hold at most one value of type datetime"""
    d = new_doc()
    si = ctx.choose("start", 3)  # 0 none, 1.. TIMES index+1
    ei = ctx.choose("end", 3)
    act = d.activity("ex:a", None if si == 0 else _time_value(ctx, "srep", si - 1),
                     None if ei == 0 else _time_value(ctx, "erep", ei - 1))
    s2 = ctx.choose("start2", 3)
    e2 = ctx.choose("end2", 3)
    act.set_time(None if s2 == 0 else _time_value(ctx, "srep2", s2 - 1), None if e2 == 0 else _time_value(ctx, "erep2", e2 - 1))
    exp_s = TIMES[s2 - 1] if s2 else (TIMES[si - 1] if si else None)
    exp_e = TIMES[e2 - 1] if e2 else (TIMES[ei - 1] if ei else None)
    for a, exp, getter in ((act.FORMAL_ATTRIBUTES[0], exp_s, act.get_startTime), (act.FORMAL_ATTRIBUTES[1], exp_e, act.get_endTime)):
        vals = list(act.get_attribute(a))
        ctx.check(len(vals) == (0 if exp is None else 1), "set_time left %d values in %s" % (len(vals), a))
        if exp is not None:
            ctx.check(isinstance(vals[0], datetime.datetime), "set_time stored a %s in %s" % (type(vals[0]).__name__, a))
            ctx.check(vals[0] == exp, "set_time stored another instant")
            ctx.check(getter() == exp, "get_startTime/get_endTime disagrees")


def asserted_type(ctx):
    """add_asserted_type / prov:type accumulate a set"""
    from prov.constants import PROV
    from oracles import strict as S

    d = new_doc()
    e = d.entity("ex:a")
    l1 = ctx.str("t", 2, 1, "name")
    l2 = ctx.str("t", 2, 1, "name")
    q1 = d.valid_qualified_name("ex:" + l1)
    q2 = d.valid_qualified_name("ex2:" + l2)
    e.add_asserted_type(q1)
    e.add_asserted_type(q2)
    e.add_attributes({"prov:type": q1})
    types = list(e.get_asserted_types())
    if l1 == l2:
        ctx.check(len(types) == 1, "the same asserted type is stored twice")
    else:
        ctx.check(len(types) == 2, "two different asserted types are not both stored")
    ctx.observe("n", len(types))


def _nformal(k):
    return {0: 0, 1: 2, 2: 3, 3: 3, 4: 2, 5: 4, 6: 4, 7: 3, 8: 5, 9: 0, 10: 2, 11: 3, 12: 3, 13: 2, 14: 2, 15: 2, 16: 3, 17: 2}[k]


def _construct_shards(tier):
    out = []
    for k in range(18):
        for e in range(len(ENTRY)):
            if _nformal(k) == 0:
                if e == 0:
                    out.append({"kind": k, "entry": e, "focus": 0})
                continue
            for f in range(_nformal(k)):
                out.append({"kind": k, "entry": e, "focus": f})
    return out


def _second_shards(tier):
    out = []
    for k in range(18):
        for j in range(_nformal(k)):
            for e in ((0, 2) if tier == "quick" else (0, 1, 2, 3)):
                out.append({"kind": k, "again": j, "entry": e})
    return out


def _same_call_shards(tier):
    out = []
    for k in range(18):
        for j in range(_nformal(k)):
            for e in ((0, 2) if tier == "quick" else (0, 1, 2)):
                if tier == "quick" and (k + j) % 2 and e == 2:
                    continue
                if k == 17 and j == 1:
                    continue  # not claimed: several prov:entity values of one membership given in a single call
                out.append({"kind": k, "again": j, "entry": e})
    return out


def _lit_shards(tier):
    return [{"lit": l, "entry": e} for l in range(len(LIT_KINDS)) for e in range(3)]


_ASSUME = ["reference local parts match [A-Za-z][A-Za-z0-9_]* (length<=2)", "times and ISO strings come from a 3-element catalogue (dateutil runs concretely)",
           "xsd:double / xsd:dateTime / xsd:boolean lexical forms from catalogues; xsd:int/long lexical form is str(n) of an unbounded symbolic int under the contract int(str(n)) == n"]

OBLIGATIONS = [
    Obligation(name="construct", fn=construct, shards=_construct_shards,
               desc="18 kinds x 4 entry paths (new_record dict / pair list / factory / add_attributes afterwards) x every presence mask of the "
                    "optional arguments x each formal argument in turn given in every accepted representation (QualifiedName, 'ex:l', record object, "
                    "'ex2:l'; datetime, ISO string): formal attributes hold <=1 value, references are QualifiedNames with the right URI, times are datetimes",
               bounds="one record; the focused argument has a symbolic local name |local|<=2, the other arguments fixed names/catalogue times",
               assumptions=_ASSUME,
               functions=["prov.model.ProvRecord.add_attributes/_auto_literal_conversion", "prov.model.ProvBundle.new_record + 18 factory methods",
                          "prov.model._ensure_datetime/parse_xsd_datetime", "prov.model.NamespaceManager.valid_qualified_name"],
               budget_s=(150, 600), per_path_s=(20, 40)),
    Obligation(name="second_value", fn=second_value, shards=_second_shards,
               desc="for every kind and every formal attribute: a later add_attributes (dict or pair-list form) with the same value in any representation "
                    "is a no-op, with a different value raises ProvException and leaves the record unchanged, with a first value stores it normalised",
               bounds="one record (all optional arguments present, or none), one follow-up call; symbolic local names |local|<=2 (equal/different decided by the solver)",
               assumptions=_ASSUME, functions=["prov.model.ProvRecord.add_attributes"], budget_s=(150, 600), per_path_s=(20, 40)),
    Obligation(name="same_call", fn=same_call, shards=_same_call_shards,
               desc="two values for one formal attribute given in ONE call (pair list to new_record, attributes + other_attributes, or one add_attributes call), "
                    "in either order: equal values (any representation) collapse to one, different values raise ProvException and leave nothing half-added",
               bounds="one record, all formal arguments present, one duplicated attribute; symbolic local names |local|<=2", assumptions=_ASSUME,
               functions=["prov.model.ProvRecord.add_attributes", "prov.model.ProvBundle.new_record"], budget_s=(150, 600), per_path_s=(20, 40)),
    Obligation(name="subtype_factory", fn=subtype_factory, shards=[{"factory": i} for i in range(len(SUBTYPE_FACTORIES))],
               desc="revision()/quotation()/primary_source()/collection() with caller-supplied prov:type values (dict or pair list, possibly repeating the PROV type): "
                    "the asserted types are the union, formal attributes stay normalised",
               bounds="one record; symbolic type local name |local|<=2; 6 other_attributes forms (dict / pair list, 'prov:type' / PROV_TYPE keys)", assumptions=_ASSUME,
               functions=["prov.model.ProvBundle.revision/quotation/primary_source/collection", "prov.model.ProvRecord.add_asserted_type"],
               budget_s=(60, 200), per_path_s=(20, 40)),
    Obligation(name="literal_normalisation", fn=literal_normalisation, shards=_lit_shards,
               desc="Literal(lexical, xsd:int|long|string|anyURI|boolean|double|dateTime) and the native Python value are stored identically, "
                    "through dict, pair-list and add_attributes entry; non-formal attributes accumulate a set",
               bounds="ints unbounded (contract stub), strings/URIs |s|<=3 any code points, boolean/double/dateTime lexicals from catalogues",
               assumptions=_ASSUME, functions=["prov.model.ProvRecord._auto_literal_conversion", "prov.model.parse_xsd_types/parse_boolean", "prov.model.Literal"],
               budget_s=(100, 300), per_path_s=(20, 40)),
    Obligation(name="set_time", fn=set_time, shards=[{}],
               desc="after activity(...) and set_time(...) with every combination of absent/datetime/ISO-string arguments, "
                    "startTime and endTime hold at most one value and it is a datetime",
               bounds="3x3 initial x 3x3 set_time arguments x 2 representations each", assumptions=_ASSUME,
               functions=["prov.model.ProvActivity.set_time/get_startTime/get_endTime", "prov.model.ProvBundle.activity"],
               budget_s=(100, 300), per_path_s=(20, 40)),
    Obligation(name="asserted_type", fn=asserted_type, shards=[{}],
               desc="add_asserted_type / prov:type accumulate a set keyed by URI", bounds="two symbolic type names |local|<=2",
               assumptions=_ASSUME, functions=["prov.model.ProvRecord.add_asserted_type/get_asserted_types"],
               budget_s=(60, 100), per_path_s=(20, 40)),
]
