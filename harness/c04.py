"""C04 - == on documents, bundles and records is an equivalence that coincides with content equivalence."""
from symprov.oblig import Obligation
from harness.common import EX, TIMES, add_record, new_doc, stub_logging_str

SHAPES = [
    ("entity+int", 0, True, "ex:", None, "ivar"),
    ("entity via ex2", 0, True, "ex2:", None, None),
    ("agent+int", 9, True, "ex:", None, "ivar"),
    ("usage anonymous+int", 3, False, None, ["en:x", "en:a", None], "ivar"),
    ("usage identified", 3, True, "ex:", ["en:x", "en:a", None], None),
    ("generation identified T0", 2, True, "ex:", ["en:a", None, TIMES[0]], None),
    ("usage anonymous other end", 3, False, None, ["en:x", "en:b", None], None),
    ("specialization", 14, False, None, ["en:x", "en:a"], None),
    ("mention without bundle", 16, False, None, ["en:x", "en:a", None], None),
    ("alternate", 15, False, None, ["en:x", "en:a"], None),
]
MENU = {"full": [0, 1, 2, 3, 4, 5, 6, 7, 8, 9], "mid": [0, 2, 3, 4], "small": [0, 3]}


def _make(ctx, b, si):
    name, k, identified, pfx, args, extra = SHAPES[si]
    ident = (pfx + ctx.str("id", 2, 1, "name")) if identified else None
    ex = [("ex:k", ctx.bigint("v"))] if extra == "ivar" else None
    return add_record(b, k, ident, args, ex)


def _build(ctx, n_top, bundle, menu, first=None):
    """bundle: None (no bundle) or number of records in the bundle (0 = empty bundle)"""
    stub_logging_str(ctx)
    d = new_doc()
    for i in range(n_top):
        if first is not None and i < len(first):
            si = first[i]
        else:
            si = menu[ctx.choose("shape", len(menu))]
        _make(ctx, d, si)
    if bundle is not None:
        bid = ("en:bb", "en:cc")[ctx.choose("bid", 2)]
        b = d.bundle(bid)
        for i in range(bundle):
            _make(ctx, b, menu[ctx.choose("shape", len(menu))])
    return d


def _set_eq_docs(S, a, b):
    """content equivalence: same SET of records at top level and in the same bundles"""
    if not S.set_eq(a["records"], b["records"], S.record_eq):
        return False
    if len(a["bundles"]) != len(b["bundles"]):
        return False
    for bid, recs in a["bundles"]:
        hit = [r2 for bid2, r2 in b["bundles"] if bid2 == bid]
        if len(hit) != 1 or not S.set_eq(recs, hit[0], S.record_eq):
            return False
    return True


def _check_pair(ctx, S, d1, d2, tag=""):
    spec = _set_eq_docs(S, S.doc_desc(d1), S.doc_desc(d2))
    e12 = bool(d1 == d2)
    e21 = bool(d2 == d1)
    ctx.check(e12 == spec, "%sd1 == d2 is %s but content equivalence is %s" % (tag, e12, spec))
    ctx.check(e21 == spec, "%sd2 == d1 is %s but content equivalence is %s (asymmetric ==)" % (tag, e21, spec))
    ctx.check(bool(d1 != d2) == (not spec), "%s!= disagrees with ==" % tag)
    ctx.check(bool(d2 != d1) == (not spec), "%s!= disagrees with == (reverse)" % tag)
    return spec


def _check_records(ctx, S, d1, d2):
    _check_record_lists(ctx, S, list(d1.get_records()), list(d2.get_records()))
    for b1 in d1.bundles:
        for b2 in d2.bundles:
            _check_record_lists(ctx, S, list(b1.get_records()), list(b2.get_records()))


def _check_record_lists(ctx, S, r1, r2):
    for a in r1:
        for b in r2:
            spec = S.record_eq(S.record_desc(a), S.record_desc(b))
            ctx.check(bool(a == b) == spec, "record == disagrees with content equivalence")
            ctx.check(bool(b == a) == spec, "record == is asymmetric")
            ctx.check(bool(a != b) == (not spec), "record != disagrees with ==")
            if not ctx.sym and a == b:
                ctx.check(hash(a) == hash(b), "equal records have different hashes")
    for a in r1:
        ctx.check(bool(a == a), "record == is not reflexive")


def pairs(ctx):
    from oracles import strict as S

    P = ctx.params
    menu = MENU[P["menu"]]
    d1 = _build(ctx, P["n1"], P["b1"], menu, P.get("first"))
    d2 = _build(ctx, P["n2"], P["b2"], menu, P.get("first2"))
    ctx.check(bool(d1 == d1) and not bool(d1 != d1), "document == is not reflexive")
    spec = _check_pair(ctx, S, d1, d2)
    _check_records(ctx, S, d1, d2)
    # bundles compared directly
    for b1 in d1.bundles:
        for b2 in d2.bundles:
            bs = S.set_eq(S.bundle_desc(b1), S.bundle_desc(b2), S.record_eq)
            ctx.check(bool(b1 == b2) == bs and bool(b2 == b1) == bs, "bundle == disagrees with content equivalence")
            ctx.check(bool(b1 != b2) == (not bs), "bundle != disagrees with ==")
    ctx.observe("spec", spec)


VALUE_FORMS = ["qname ex:v", "Identifier(EX+'v')", "Literal(EX+'v', xsd:anyURI)", "str EX+'v'", "qname ex2:v (same URI, other prefix)"]
TEXT_SHAPES = ["entity ex:a", "entity en:x with attribute ex:k", "entity en:x with value", "usage en:x -> ex:a", "entity with two value forms"]


def _text_doc(ctx, uri, shape, form_tag, fixed=None):
    from prov.identifier import Identifier
    from prov.model import Literal, ProvDocument
    import prov.constants as pc

    d = ProvDocument()
    d.add_namespace("ex", uri)
    d.add_namespace("ex2", uri)
    d.add_namespace("en", "http://n/")

    def value(tag):
        f = fixed[tag] if fixed and tag in fixed else ctx.choose(tag, len(VALUE_FORMS))
        if f == 0:
            return d.valid_qualified_name("ex:v")
        if f == 1:
            return Identifier(EX + "v")
        if f == 2:
            return Literal(EX + "v", pc.XSD_ANYURI)
        if f == 3:
            return EX + "v"
        return d.valid_qualified_name("ex2:v")

    if shape == 0:
        d.entity("ex:a")
    elif shape == 1:
        d.entity("en:x", [("ex:k", 5)])
    elif shape == 2:
        d.entity("en:x", [("en:k", value(form_tag))])
    elif shape == 3:
        d.entity("en:x")
        d.usage("en:x", "ex:a")
    else:
        d.entity("en:x", [("en:k", value(form_tag)), ("en:k", value(form_tag + "b"))])
    return d


def same_text(ctx):
    """two documents whose names have the same prefixed TEXT: equal iff the prefix denotes the same URI in both;
    values that share a URI text but are different kinds of value (qualified name, xsd:anyURI, string) stay different"""
    from oracles import strict as S

    stub_logging_str(ctx)
    shape = ctx.params["shape"]
    u = ctx.str("u", 9, 1, "uri")
    d1 = _text_doc(ctx, EX, shape, "f1", {"f1": 0, "f1b": 1} if shape == 4 else None)
    d2 = _text_doc(ctx, u, shape, "f2")
    ctx.check(bool(d1 == d1) and bool(d2 == d2), "document == is not reflexive")
    spec = _check_pair(ctx, S, d1, d2)
    _check_records(ctx, S, d1, d2)
    ctx.observe("spec", spec)


def triples(ctx):
    from oracles import strict as S

    P = ctx.params
    menu = MENU[P["menu"]]
    ds = [_build(ctx, P["n"], P["b"], menu) for _ in range(3)]
    e = [[bool(ds[i] == ds[j]) for j in range(3)] for i in range(3)]
    for i in range(3):
        for j in range(3):
            for k in range(3):
                if e[i][j] and e[j][k]:
                    ctx.check(e[i][k], "== is not transitive (d%d==d%d, d%d==d%d, d%d!=d%d)" % (i, j, j, k, i, k))
    ctx.observe("eq", e)


PRESERVING = ["permute", "respell_prefix", "duplicate", "rebuild_from_records", "json_container_round_trip", "unified_twice",
              "lookups_then_rebuild"]


def preserving(ctx):
    """d' = one content-preserving transformation of d  ->  equal in both orders"""
    from prov.model import ProvDocument
    from oracles import strict as S

    P = ctx.params
    menu = MENU[P["menu"]]
    d = _build(ctx, P["n"], P["b"], menu)
    t = P["transform"]
    if t == 0:  # same records in reverse order
        d2 = new_doc()
        for r in reversed(d.get_records()):
            d2.add_record(r)
        for b in d.bundles:
            nb = d2.bundle(b.identifier)
            for r in reversed(b.get_records()):
                nb.add_record(r)
    elif t == 1:  # every name re-homed under another prefix for the same URIs
        d2 = ProvDocument()
        d2.add_namespace("q", EX)
        d2.add_namespace("w", "http://n/")
        d2.update(d)
    elif t == 2:  # first record inserted once more
        d2 = ProvDocument()
        d2.update(d)
        recs = d.get_records()
        if recs:
            d2.add_record(recs[0])
    elif t == 3:
        d2 = ProvDocument(records=d.get_records())
        for b in d.bundles:
            nb = d2.bundle(b.identifier)
            nb.update(b)
    elif t == 4:
        from prov.serializers.provjson import decode_json_document, encode_json_document

        d2 = ProvDocument()
        decode_json_document(encode_json_document(d), d2)
    elif t == 5:
        d2 = d.unified()
        d = d.unified()
    else:
        # identifier lookups (present and absent names) must not influence equality
        for r in list(d.get_records()):
            if r.identifier is not None:
                d.get_record(r.identifier)
        d.get_record("en:absent")
        for b in d.bundles:
            b.get_record("en:absent")
        d2 = ProvDocument()
        d2.update(d)
    spec = _set_eq_docs(S, S.doc_desc(d), S.doc_desc(d2))
    ctx.check(spec, "harness: transformation %s did not preserve strict content" % PRESERVING[t])
    ctx.check(bool(d == d2), "%s: d == d' is False for a content-preserving transformation" % PRESERVING[t])
    ctx.check(bool(d2 == d), "%s: d' == d is False for a content-preserving transformation" % PRESERVING[t])
    ctx.check(not bool(d != d2) and not bool(d2 != d), "%s: != holds for a content-preserving transformation" % PRESERVING[t])


MUTATIONS = ["add_attributes", "add_asserted_type", "set_time", "get_attribute live set"]


def mutate_then_compare(ctx):
    """a record that was compared / hashed and is then modified in place must equal (and hash like) a record built afresh
    with the final content"""
    from oracles import strict as S
    from harness.common import TIMES as T

    stub_logging_str(ctx)
    m = ctx.params["mutation"]
    v = ctx.bigint("v")
    d1, d2 = new_doc(), new_doc()
    a = d1.activity("ex:a", None, None, {"ex:k": v})
    twin0 = d2.activity("ex:a", None, None, {"ex:k": v})
    ctx.check(bool(d1 == d2) and bool(a == twin0), "equal documents compare unequal before the mutation")
    if not ctx.sym:
        ctx.check(hash(a) == hash(twin0), "equal records hash differently")
    d3 = new_doc()
    if m == 0:
        w = ctx.bigint("w")
        a.add_attributes({"ex:j": w})
        b = d3.activity("ex:a", None, None, {"ex:k": v, "ex:j": w})
    elif m == 1:
        q = d1.valid_qualified_name("ex:T")
        a.add_asserted_type(q)
        b = d3.activity("ex:a", None, None, {"ex:k": v, "prov:type": d3.valid_qualified_name("ex:T")})
    elif m == 2:
        a.set_time(T[0], T[1])
        b = d3.activity("ex:a", T[0], T[1], {"ex:k": v})
    else:
        a.get_attribute("ex:k").add(7)
        b = d3.activity("ex:a", None, None, [("ex:k", v), ("ex:k", 7)])
    spec = S.record_eq(S.record_desc(a), S.record_desc(b))
    ctx.check(bool(a == b) == spec and bool(b == a) == spec, "record == disagrees with content equivalence after an in-place modification")
    ctx.check(bool(d1 == d3) == spec and bool(d3 == d1) == spec, "document == disagrees with content equivalence after an in-place modification")
    if not ctx.sym and a == b:
        ctx.check(hash(a) == hash(b), "records equal after an in-place modification hash differently (stale hash)")
        # a document holding the modified record twice equals one holding it once (set semantics rely on the hash)
        d4 = new_doc()
        d4.add_record(b)
        d4.add_record(a)
        ctx.check(d4 == d3 and d3 == d4, "a repeated identical record changes document equality (stale hash)")
    ctx.observe("m", m)


def _pair_shards(tier):
    out = []
    F, M, Sm = MENU["full"], MENU["mid"], MENU["small"]
    for f in F:
        out.append({"n1": 1, "b1": None, "n2": 1, "b2": None, "menu": "full", "first": [f]})
    for f in M:
        out.append({"n1": 2, "b1": None, "n2": 1, "b2": None, "menu": "mid", "first": [f]})
        out.append({"n1": 1, "b1": None, "n2": 2, "b2": None, "menu": "mid", "first": [f]})
    for f in Sm:
        for g in Sm:
            out.append({"n1": 2, "b1": None, "n2": 2, "b2": None, "menu": "small", "first": [f, g]})
    bs = (None, 0, 1) if tier == "quick" else (None, 0, 1, 2)
    for b1 in bs:
        for b2 in bs:
            if b1 is None and b2 is None:
                continue
            out.append({"n1": 0, "b1": b1, "n2": 0, "b2": b2, "menu": "mid"})
            for f in Sm:
                for g in Sm:
                    out.append({"n1": 1, "b1": b1, "n2": 1, "b2": b2, "menu": "small", "first": [f], "first2": [g]})
    if tier == "thorough":
        for f in F:
            out.append({"n1": 2, "b1": None, "n2": 1, "b2": None, "menu": "full", "first": [f]})
            out.append({"n1": 1, "b1": None, "n2": 2, "b2": None, "menu": "full", "first": [f]})
        for f in M:
            for g in M:
                out.append({"n1": 2, "b1": None, "n2": 2, "b2": None, "menu": "mid", "first": [f, g]})
        for f in Sm:
            for g in Sm:
                out.append({"n1": 3, "b1": None, "n2": 2, "b2": None, "menu": "small", "first": [f, g]})
                out.append({"n1": 2, "b1": None, "n2": 3, "b2": None, "menu": "small", "first": [f, g]})
    return out


def _triple_shards(tier):
    if tier == "quick":
        return [{"n": 1, "b": None, "menu": "mid"}, {"n": 0, "b": 1, "menu": "small"}, {"n": 1, "b": 0, "menu": "small"}]
    return [{"n": 1, "b": None, "menu": "full"}, {"n": 2, "b": None, "menu": "small"}, {"n": 0, "b": 1, "menu": "mid"},
            {"n": 1, "b": 1, "menu": "small"}, {"n": 1, "b": 0, "menu": "mid"}]


def _pres_shards(tier):
    out = []
    for t in range(len(PRESERVING)):
        out.append({"transform": t, "n": 2, "b": None, "menu": "mid"})
        out.append({"transform": t, "n": 1, "b": 1, "menu": "mid"})
        if tier == "thorough":
            out.append({"transform": t, "n": 3, "b": None, "menu": "mid"})
            out.append({"transform": t, "n": 2, "b": 2, "menu": "small"})
    return out


_ASSUME = ["stub: str(record) built only for logger.debug() inside ProvBundle.__eq__ returns a constant",
           "identifier local parts match [A-Za-z][A-Za-z0-9_]* (length<=2)",
           "attribute values are unbounded ints / catalogue datetimes / qualified names (no 1/True/1.0 mixing)"]
_FUNCS = ["prov.model.ProvRecord.__eq__/__hash__/attributes", "prov.model.ProvBundle.__eq__/__ne__", "prov.model.ProvDocument.__eq__",
          "prov.identifier.Identifier.__eq__", "prov.identifier.QualifiedName.__hash__", "prov.model.Literal.__eq__"]

OBLIGATIONS = [
    Obligation(name="mutate_then_compare", fn=mutate_then_compare, shards=[{"mutation": i} for i in range(len(MUTATIONS))],
               desc="a record that took part in == (and hash) and is then modified in place (add_attributes, add_asserted_type, set_time, live attribute set) "
                    "equals - and on replay hashes like - a record built afresh with the final content; a repeated identical record does not change document equality",
               bounds="one activity with symbolic int values; 4 kinds of in-place modification", assumptions=_ASSUME,
               functions=["prov.model.ProvRecord.__eq__/__hash__/add_attributes/add_asserted_type/get_attribute", "prov.model.ProvActivity.set_time"],
               budget_s=(100, 300), per_path_s=(20, 40)),
    Obligation(name="pairs", fn=pairs, shards=_pair_shards,
               desc="for every pair of documents in bounds: d1==d2, d2==d1 and not(d1!=d2) all equal the set-based content "
                    "equivalence computed by an independent oracle; same for bundles and for every record pair (+hash on replay)",
               bounds={"quick": "documents of <=2 top-level records (7 record shapes) or 0-1 top-level + bundle with 0-1 records; bundle id from 2 names; "
                                "identifiers EX+local |local|<=2 under prefixes ex/ex2; unbounded symbolic int values",
                       "thorough": "<=3 vs <=2 top-level records; bundles with <=2 records"},
               assumptions=_ASSUME, functions=_FUNCS, budget_s=(150, 900), per_path_s=(20, 40)),
    Obligation(name="same_text", fn=same_text, shards=[{"shape": i} for i in range(len(TEXT_SHAPES))],
               desc="documents whose names are spelled with the same prefix:local text: == holds iff the prefix denotes the same URI in both (symbolic URI in the second); "
                    "a qualified name, an xsd:anyURI and a string with the same URI text are different values (one record may hold two of them)",
               bounds="5 document shapes; namespace URI symbolic |u|<=9 (so it can equal 'http://e/'); 5 value forms per value, up to 2 values",
               assumptions=_ASSUME, functions=_FUNCS, budget_s=(150, 600), per_path_s=(20, 40)),
    Obligation(name="triples", fn=triples, shards=_triple_shards,
               desc="transitivity of == over all triples of documents in bounds",
               bounds={"quick": "3 documents of 1 record, or a bundle with 1 record", "thorough": "3 documents of <=2 records / 1+1"},
               assumptions=_ASSUME, functions=_FUNCS, budget_s=(150, 900), per_path_s=(20, 40)),
    Obligation(name="preserving", fn=preserving, shards=_pres_shards,
               desc="a content-preserving transformation (reverse order, other prefixes, duplicate record, rebuild from "
                    "records, PROV-JSON container round trip, unified) yields a document equal in both argument orders",
               bounds={"quick": "source documents of 2 records or 1 + bundle(1)", "thorough": "up to 3 records or 2 + bundle(2)"},
               assumptions=_ASSUME, functions=_FUNCS + ["prov.model.ProvBundle.update/add_record", "prov.serializers.provjson (container level)"],
               budget_s=(150, 900), per_path_s=(20, 40)),
]
