"""C07 - PROV-O (RDF, TriG) round trip preserves the unified content of expressible documents."""
from symprov.oblig import Obligation
from harness.common import EX, TIMES, KIND_NAMES, add_record, formal, is_time_attr, new_doc, stub_logging_str

REL_KINDS = [2, 3, 4, 5, 6, 7, 8, 10, 11, 12, 13, 14, 15, 17]   # no mention
# relations that have no qualified form in PROV-O when they carry no identifier: no extra attributes / optional arguments
BARE_WHEN_ANON = (10, 4, 12, 13, 14, 15, 17)
# element type of each formal argument position, by attribute local name
ARG_TYPE = {"entity": "e", "activity": "a", "agent": "ag", "trigger": "e", "starter": "a", "ender": "a", "informed": "a",
            "informant": "a", "generatedEntity": "e", "usedEntity": "e", "generation": "g", "usage": "u", "plan": "e",
            "delegate": "ag", "responsible": "ag", "influencee": "e", "influencer": "e", "specificEntity": "e",
            "generalEntity": "e", "alternate1": "e", "alternate2": "e", "collection": "e"}
EXTRAS = ["ex:k=str", "ex:n=int", "prov:role", "prov:type=qname", "prov:label", "ex:b=bool", "ex:t=datetime", "ex:u=uri",
          "ex:l=lang", "prov:location", "prov:value", "ex:big=int64", "ex:neg=int"]


def _extra(i, d):
    from prov.identifier import Identifier
    from prov.model import Literal

    name = EXTRAS[i]
    if name == "ex:k=str":
        return ("ex:k", "some text é")
    if name == "ex:n=int":
        return ("ex:n", 42)
    if name == "prov:role":
        return ("prov:role", d.valid_qualified_name("ex:role1"))
    if name == "prov:type=qname":
        return ("prov:type", d.valid_qualified_name("ex:T"))
    if name == "prov:label":
        return ("prov:label", "a label")
    if name == "ex:b=bool":
        return ("ex:b", True)
    if name == "ex:t=datetime":
        return ("ex:t", TIMES[1])
    if name == "ex:u=uri":
        return ("ex:u", Identifier("http://x/y"))
    if name == "ex:l=lang":
        return ("ex:l", Literal("bonjour", None, "fr-CA"))
    if name == "prov:value":
        return ("prov:value", 7)
    if name == "prov:location":
        return ("prov:location", "somewhere")
    if name == "ex:big=int64":
        return ("ex:big", 6442450944)
    if name == "ex:neg=int":
        return ("ex:neg", -5)
    return ("prov:value", 7)


def _rel(ctx, target, d, k, tag, subject_override=None, light=False):
    fa = formal(k)
    names = {"e": ["ex:e1", "ex:e2"], "a": ["ex:a1", "ex:a2"], "ag": ["ex:ag1", "ex:ag2"], "g": ["ex:g9"], "u": ["ex:u9"]}
    # specializationOf / alternateOf / hadMember have no qualified form in PROV-O: never identified, never attributed
    if k in (14, 15, 17):
        identified = False
    elif tag == "r1" and "ident" in ctx.params:
        identified = bool(ctx.params["ident"])
    else:
        identified = ctx.bool(tag + "identified")
    args = []
    last_opt = False
    may_qualify = identified or k not in BARE_WHEN_ANON
    all_opts = ctx.bool(tag + "opts") if (light and may_qualify and len(fa) > 2) else False
    for i, a in enumerate(fa):
        if is_time_attr(a):
            present = (all_opts if light else ctx.bool(tag + "time")) if may_qualify else False
            args.append(TIMES[0] if present else None)
            continue
        pool = names[ARG_TYPE[a.localpart]]
        if i < 2:
            if light and (i == 1 or tag == "r1"):
                args.append(pool[0])  # two-relation documents: only the second relation's subject varies
            else:
                args.append(pool[ctx.choose(tag + "arg%d" % i, len(pool))])
        else:
            if light:
                present = all_opts
            elif i <= 3:
                present = ctx.bool(tag + "opt%d" % i)
            else:
                present = last_opt   # derivation: generation and usage are present / absent together
            present = present if may_qualify else False
            last_opt = present
            args.append(pool[0] if present else None)
    extra = None
    if identified or k not in BARE_WHEN_ANON:
        if light:
            # documents with two relations: at most one extra attribute from a short menu
            e1 = ctx.choose(tag + "extra1", 4)
            extra = [_extra((0, 2, 3)[e1 - 1], d)] if e1 else None
        else:
            ne = ctx.choose(tag + "nextra", 3)
            if ne:
                e1 = ctx.choose(tag + "extra1", len(EXTRAS))
                extra = [_extra(e1, d)]
                if ne == 2:
                    extra.append(_extra((e1 + 1 + ctx.choose(tag + "extra2", 3)) % len(EXTRAS), d))
    ident = ("ex:r_%s" % tag) if identified else None
    add_record(target, k, ident, args, extra)
    qualified = identified or bool(extra) or any(a is not None for a in args[2:])
    return identified, qualified, args[0]


def round_trip(ctx):
    from prov.model import ProvDocument
    from oracles import strict as S

    stub_logging_str(ctx)
    P = ctx.params
    d = new_doc(second_prefix=False)
    in_bundle = P.get("bundle", False)
    target = d.bundle("ex:bundle1") if in_bundle else d
    elements_only = P.get("elements", False)
    if elements_only:
        ne = ctx.choose("n_eattr", 3 if P["tier"] == "thorough" else 2)
        ex = []
        if ne:
            e1 = ctx.choose("eattr", len(EXTRAS))
            ex.append(_extra(e1, d))
            if ne == 2:
                ex.append(_extra((e1 + 1 + ctx.choose("eattr2", len(EXTRAS) - 1)) % len(EXTRAS), d))
        which = ctx.choose("which", 3)
        target.entity("ex:e1", ex if which == 0 else None)
        target.activity("ex:a1", TIMES[0] if ctx.bool("a_start") else None, TIMES[2] if ctx.bool("a_end") else None, ex if which == 1 else None)
        target.agent("ex:ag1", ex if which == 2 else None)
        if ctx.bool("repeat"):
            target.entity("ex:e1", {"ex:again": 1})
    else:
        target.entity("ex:e1")
        target.activity("ex:a1", TIMES[0])
        target.agent("ex:ag1")
    target.entity("ex:e2")
    target.activity("ex:a2")
    target.agent("ex:ag2")
    if elements_only:
        return _finish(ctx, d)
    k = P["kind"]
    ident1, qual1, subj = _rel(ctx, target, d, k, "r1", light=P.get("second") is not None)
    if P.get("second") is not None:
        k2 = P["second"]
        ident2, qual2, subj2 = _rel(ctx, target, d, k2, "r2", light=True)
        same = (k2 == k and subj2 == subj)
        # exclusion (quantifier): a subject does not carry an identified and an anonymous relation of the same kind
        ctx.assume(not (same and ident1 != ident2))
        # region of open finding C07.qualified_and_plain_same_subject: same for an ATTRIBUTED anonymous relation
        # (optional arguments / extra attributes -> qualified node) next to a plain one: the plain one is not read back
        ctx.finding("C07.qualified_and_plain_same_subject", same and qual1 != qual2)
    ctx.observe("cfg", [k, P.get("second"), in_bundle])
    return _finish(ctx, d)


def _finish(ctx, d):
    from prov.model import ProvDocument
    from oracles import strict as S

    if ctx.sym:
        ctx.checks += 1
        return
    want = S.doc_desc(d.unified())
    try:
        text = d.serialize(format="rdf")
        d2 = ProvDocument.deserialize(content=text, format="rdf")
    except Exception as e:
        ctx.fail("PROV-O round trip raised %s: %s" % (type(e).__name__, str(e)[:200]))
    have = S.doc_desc(d2)
    # RDF is a set of triples: the comparison is set-based (identical anonymous records collapse)
    ok = S.set_eq(want["records"], have["records"], S.record_eq) and len(want["bundles"]) == len(have["bundles"])
    if ok:
        for bid, recs in want["bundles"]:
            hit = [r2 for b2, r2 in have["bundles"] if b2 == bid]
            ok = ok and len(hit) == 1 and S.set_eq(recs, hit[0], S.record_eq)
    ctx.check(ok, "PROV-O (TriG) round trip does not yield the unified original: %s" % S.first_difference(want, have))


def _shards(tier):
    out = [{"elements": True}, {"elements": True, "bundle": True}]
    for k in REL_KINDS:
        for ident in ((0, 1) if k not in (14, 15, 17) else (0,)):
            out.append({"kind": k, "ident": ident})
            out.append({"kind": k, "bundle": True, "ident": ident})
        out.append({"kind": k, "second": k})
    for k in REL_KINDS:
        for k2 in REL_KINDS:
            if k2 != k:
                out.append({"kind": k, "second": k2})
    return out


OBLIGATIONS = [
    Obligation(name="round_trip", fn=round_trip, shards=_shards,
               desc="the path search enumerates the structural space of PROV-O-expressible documents (relation kind, identified/anonymous, optional-argument mask, 0-2 extra attributes "
                    "of 11 kinds, element attributes and times, document/bundle, a second relation sharing the subject or not); every configuration is written as TriG and read back with the "
                    "real rdflib stack on the unmodified build and compared strictly with unified()",
               bounds="6 declared elements; 14 relation kinds alone, in a bundle, doubled, and all 182 ordered pairs of kinds",
               assumptions=["the quantifier's exclusions: names under non-empty prefixes declared on the document, non-empty bundles, one kind per identifier, first two arguments present, no mention, "
                            "no PROV class as prov:type of a relation, anonymous attribution/communication/delegation/influence/specialization/alternate/membership without extras, "
                            "no identified+anonymous relation of one kind on one subject; values: str, int, bool, datetime, URI, qualified name, language-tagged string",
                            "no symbolic content: rdflib is entered at the first statement of the encoder (weakest use of the technique)"],
               functions=["prov.serializers.provrdf.ProvRDFSerializer.serialize/deserialize/encode_document/encode_container/decode_document/decode_container"],
               shims=["rdflib crossed in Stage B only"], best_verdict="PATH_COMPLETE", traced=False, budget_s=(250, 900), per_path_s=(30, 60)),
]
