"""C10 - emitted PROV-JSON (and PROV-XML) mean the same to an independent reader written from the specifications."""
from symprov.oblig import Obligation
from harness.common import stub_logging_str
from harness import docspace as DS
from harness.c01 import JSON_OPTS, _structure_shards, _value_shards, _ASSUME


def _json_check(ctx, d):
    import json
    from prov.serializers.provjson import encode_json_document
    from oracles import strict as S
    from oracles import provjson_reader as R

    want = S.doc_desc(d)
    # container level: the independent reader runs on the writer's container with symbolic contents
    try:
        have = R.read(encode_json_document(d))
    except R.JsonSpecViolation as e:
        ctx.fail("emitted PROV-JSON breaks a structural rule of the specification: %s" % e.args[0])
    ctx.check(S.doc_eq(want, have), "an independent PROV-JSON reader recovers different content from the emitted container")
    if not ctx.sym:
        for opts in JSON_OPTS:
            text = d.serialize(format="json", **opts)
            try:
                have = R.read(json.loads(text))
            except R.JsonSpecViolation as e:
                ctx.fail("emitted PROV-JSON text breaks the specification: %s" % e.args[0])
            ctx.check(S.doc_eq(want, have), "independent PROV-JSON reader recovers different content from the text (%s): %s"
                      % (opts, S.first_difference(want, have)))
    ctx.observe("content~", want)


def json_values(ctx):
    stub_logging_str(ctx)
    P = ctx.params
    _json_check(ctx, DS.values_doc(ctx, P["attr"], P["vk"], P["ns"], P["bundle"], strlen=P.get("strlen", 2)))


def json_twin_bundles(ctx):
    stub_logging_str(ctx)
    _json_check(ctx, DS.twin_bundles_doc(ctx))


def xml_twin_bundles(ctx):
    import harness.c02 as X

    stub_logging_str(ctx)
    X._check(ctx, DS.twin_bundles_doc(ctx), independent=True)


def json_structure(ctx):
    stub_logging_str(ctx)
    P = ctx.params
    _json_check(ctx, DS.structure_doc(ctx, P["kind"], P.get("second"), P.get("bundle", False)))


_FUNCS = ["prov.serializers.provjson.encode_json_document/encode_json_container/encode_json_representation/literal_json_representation",
          "prov.constants.PROV_N_MAP/PROV_ATTRIBUTES_ID_MAP (key tables)", "oracles.provjson_reader (independent, from the PROV-JSON specification)"]

PRELOAD = ("prov.model", "prov.serializers.provxml", "prov.serializers.provjson")

OBLIGATIONS = [
    Obligation(name="json_twin_bundles", fn=json_twin_bundles, shards=[{}],
               desc="sibling bundles binding one prefix to different URIs (+ empty bundle): independent PROV-JSON reader recovers the same content",
               bounds="2-3 bundles; URIs |u|<=3", assumptions=_ASSUME, functions=_FUNCS, budget_s=(150, 600), per_path_s=(20, 40)),
    Obligation(name="json_values", fn=json_values, shards=_value_shards,
               desc="the PROV-JSON container emitted for one entity with one attribute (6 name classes x 15 value kinds, 5 namespace modes) is read by an "
                    "independent specification-based reader to the same strict content; on replay the real text under all 8 dump options is read too",
               bounds="as C01.values", assumptions=_ASSUME, functions=_FUNCS, budget_s=(150, 600), per_path_s=(20, 40)),
    Obligation(name="json_structure", fn=json_structure, shards=_structure_shards,
               desc="same for the 18 record kinds x presence masks x identified/anonymous x repeated identifiers, in documents and bundles; the reader "
                    "enforces the key tables of the specification (record-kind keys, prov:* formal keys per kind, '$'/'type'/'lang' objects)",
               bounds="as C01.structure", assumptions=_ASSUME, functions=_FUNCS, budget_s=(150, 600), per_path_s=(20, 40)),
]


# ---- PROV-XML: real writer (lxml) + independent reader (xml.etree, from the PROV-XML note) -----------------------

def xml_values(ctx):
    import harness.c02 as X

    stub_logging_str(ctx)
    P = ctx.params
    d = DS.values_doc(ctx, P["attr"], P["vk"], P["ns"], P["bundle"], strlen=P.get("strlen", 2), text_kind="text")
    X.xml_guards(ctx, d, P)
    X._check(ctx, d, independent=True)


def xml_structure(ctx):
    import harness.c02 as X

    stub_logging_str(ctx)
    P = ctx.params
    X._check(ctx, DS.structure_doc(ctx, P["kind"], P.get("second"), P.get("bundle", False)), independent=True)


def _xml_value_shards(tier):
    import harness.c02 as X

    return X._value_shards(tier)


_XFUNCS = ["prov.serializers.provxml.ProvXMLSerializer.serialize/serialize_bundle/_derive_record_label", "prov.model.sorted_attributes",
           "oracles.provxml_reader (independent, xml.etree.ElementTree, from the PROV-XML note: element names, prov:id/prov:ref, xsi:type/xml:lang, schema child order)"]

OBLIGATIONS += [
    Obligation(name="xml_twin_bundles", fn=xml_twin_bundles, shards=[{}],
               desc="sibling bundles binding one prefix to different URIs (+ empty bundle): independent PROV-XML reader recovers the same content",
               bounds="2-3 bundles; URIs |u|<=3", assumptions=_ASSUME, functions=_XFUNCS, shims=["lxml crossed in Stage B only"], best_verdict="PATH_COMPLETE",
               budget_s=(150, 600), per_path_s=(30, 60)),
    Obligation(name="xml_values", fn=xml_values, shards=_xml_value_shards,
               desc="Stage A exhausts the XML writer's paths (as C02.values); every witness is written by the real writer and read by an independent PROV-XML reader "
                    "that also enforces document/bundleContent structure, prov:ref on reference children and the schema's child order; strict comparison, force_types both",
               bounds="as C02.values", assumptions=_ASSUME, functions=_XFUNCS, shims=["lxml crossed in Stage B only"], best_verdict="PATH_COMPLETE",
               budget_s=(200, 600), per_path_s=(30, 60)),
    Obligation(name="xml_structure", fn=xml_structure, shards=_structure_shards,
               desc="same for the 18 record kinds x presence masks x identified/anonymous x repeated identifiers x documents/bundles x force_types",
               bounds="as C02.structure", assumptions=_ASSUME, functions=_XFUNCS, shims=["lxml crossed in Stage B only"], best_verdict="PATH_COMPLETE",
               budget_s=(200, 600), per_path_s=(30, 60)),
]
