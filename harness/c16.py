"""C16 - all source/destination kinds agree, and prov.read detects the format."""
import io
import os
import shutil
import tempfile

from symprov.oblig import Obligation
from harness.common import EX, TIMES, new_doc, stub_logging_str

FORMATS = ["json", "xml", "rdf", "provn"]
DEST = ["returned string", "text stream", "binary stream", "file path"]
SRC = ["content str", "content bytes", "text stream", "binary stream", "file path"]
VARIANTS = ["unicode string", "int+bool", "datetime", "uri+qname", "lang literal", "relation", "large multi-byte text +0",
            "large multi-byte text +1", "large multi-byte text +2", "unicode line separators"]
# file names for the "file path" destination / source kind: plain, URL syntax, non-ASCII with a space
NAMES = ["out", "run#2;x?y=1", "é 中"]


def _doc(variant):
    from prov.identifier import Identifier
    from prov.model import Literal

    d = new_doc(second_prefix=False)
    v = VARIANTS[variant]
    if v == "unicode string":
        d.entity("ex:e1", {"ex:k": "héllo 中文 \U0001f600 \"q\" <&>"})
    elif v == "int+bool":
        d.entity("ex:e1", {"ex:i": 12345678901234567890, "ex:b": True})
    elif v == "datetime":
        d.activity("ex:a1", TIMES[0], TIMES[2], {"ex:t": TIMES[1]})
    elif v == "uri+qname":
        d.entity("ex:e1", {"ex:u": Identifier("http://x/é"), "prov:type": d.valid_qualified_name("ex:T")})
    elif v == "lang literal":
        d.entity("ex:e1", {"prov:label": Literal("été", None, "fr")})
    elif v == "unicode line separators":
        # characters str.splitlines() / universal-newline text streams treat as line ends
        d.entity("ex:e1", {"ex:k": "a\u2028b\u2029c\x85d", "prov:label": "l1\nl2"})
    elif v == "relation":
        d.entity("ex:e1")
        d.activity("ex:a1")
        d.wasGeneratedBy("ex:e1", "ex:a1", TIMES[0], identifier="ex:g1", other_attributes={"ex:k": "ü"})
    else:
        # more than 16 KiB of 3-byte characters, shifted by 0-2 ASCII characters: any fixed-size chunking or
        # prefix sniffing of the UTF-8 bytes cuts through a character for at least one shift
        shift = int(v[-1])
        for i in range(12):
            d.entity("ex:e%d" % i, {"prov:label": "x" * shift + "日本語のテキスト" * 80})
    return d


def io_kinds(ctx):
    import prov
    from prov.model import ProvDocument
    from oracles import strict as S

    stub_logging_str(ctx)
    fi = ctx.choose("format", len(FORMATS))
    di = ctx.choose("destination", len(DEST))
    si = ctx.choose("source", len(SRC))
    explicit = ctx.bool("explicit_format")
    variant = ctx.choose("variant", len(VARIANTS))
    ni = ctx.choose("file_name", len(NAMES)) if (di == 3 or si == 4) else 0
    ctx.observe("cfg", [fi, di, si, explicit, variant, ni])
    if ctx.sym:
        ctx.checks += 1
        return  # configuration space only; every configuration is executed concretely on the unmodified build
    fmt = FORMATS[fi]
    d = _doc(variant)
    scratch = tempfile.mkdtemp(prefix="c16_")
    try:
        ref = d.serialize(format=fmt)
        ctx.check(isinstance(ref, str), "serialize() without destination did not return a str")
        # ---- destination kinds ------------------------------------------------------------------------------------
        if di == 0:
            data = ref.encode("utf-8")
        elif di == 1:
            st = io.StringIO()
            d.serialize(st, format=fmt)
            data = st.getvalue().encode("utf-8")
        elif di == 2:
            st = io.BytesIO()
            d.serialize(st, format=fmt)
            data = st.getvalue()
        else:
            p = os.path.join(scratch, "%s.%s" % (NAMES[ni], fmt))
            if explicit:
                # the destination already exists and holds a LONGER, unrelated file
                with open(p, "wb") as f:
                    f.write(b"previous content of the file\n" * (40 + len(ref) // 10))
            d.serialize(p, format=fmt)
            with open(p, "rb") as f:
                data = f.read()
            ctx.check(sorted(os.listdir(scratch)) == [os.path.basename(p)], "serialize(path) left other files: %r" % sorted(os.listdir(scratch)))
        if fmt == "xml":
            same = ProvDocument.deserialize(content=data.decode("utf-8"), format="xml") == ProvDocument.deserialize(content=ref, format="xml")
            ctx.check(same, "%s: XML written to a %s parses differently from the returned string" % (fmt, DEST[di]))
        elif fmt == "rdf":
            pass  # blank node labels differ between runs; compared after reading
        else:
            ctx.check(data == ref.encode("utf-8"), "%s written to a %s differs from the returned string (UTF-8)" % (fmt, DEST[di]))
        if fmt == "provn":
            return  # write only
        # ---- source kinds --------------------------------------------------------------------------------------------
        want = S.doc_desc(d.unified() if fmt == "rdf" else d)
        path = os.path.join(scratch, "in-%s.%s" % (NAMES[ni], fmt))
        with open(path, "wb") as f:
            f.write(data)
        if ni == 1:
            # a sibling file named like the part of the name before the URL syntax: must not be read instead
            with open(os.path.join(scratch, "in-run"), "wb") as f:
                f.write(b"{}")

        def source(kind):
            if kind == 0:
                return dict(content=data.decode("utf-8"))
            if kind == 1:
                return dict(content=data)
            if kind == 2:
                return dict(source=io.StringIO(data.decode("utf-8")))
            if kind == 3:
                return dict(source=io.BytesIO(data))
            return dict(source=path)

        got = ProvDocument.deserialize(format=fmt, **source(si))
        ctx.check(got is not None, "deserialize(%s) returned None" % SRC[si])
        ctx.check(S.doc_eq(want, S.doc_desc(got)), "%s read from %s (written to %s) differs from the document: %s"
                  % (fmt, SRC[si], DEST[di], S.first_difference(want, S.doc_desc(got))))
        # ---- prov.read: stream or path, with and without the format ---------------------------------------------------
        if si >= 2:
            got = prov.read(source(si)["source"], format=fmt if explicit else None)
            ctx.check(got is not None, "prov.read returned None")
            ctx.check(S.doc_eq(want, S.doc_desc(got)), "prov.read(%s, format=%s) of %s returned another document: %s"
                      % (SRC[si], fmt if explicit else None, fmt, S.first_difference(want, S.doc_desc(got))))
    finally:
        shutil.rmtree(scratch, ignore_errors=True)


OBLIGATIONS = [
    Obligation(name="io_kinds", fn=io_kinds, shards=[{}],
               desc="configuration product format {json, xml, rdf, provn} x 4 destination kinds x 5 source kinds x prov.read with/without format x 10 document variants with non-ASCII content: "
                    "the solver only enumerates the configurations (every path is one concrete configuration executed on the unmodified build): same text for every destination kind "
                    "(UTF-8 for binary targets; XML: parses identically), same document from every source kind, prov.read returns that document",
               bounds="4 x 4 x 5 x 2 x 10 configurations, x 3 file names (plain, URL syntax '#;?=', non-ASCII with a space) wherever a path is the destination or the source, exhaustively (3 variants are > 16 KiB documents of multi-byte text, 1 holds U+2028/U+2029/U+0085; path destinations also over a pre-existing longer file)", assumptions=["documents in the intersection of the JSON/XML/RDF-expressible spaces", "RDF compared against unified()"],
               functions=["prov.model.ProvDocument.serialize/deserialize", "prov.read", "prov.serializers.*.serialize/deserialize (stream handling)"],
               shims=["no symbolic content: this is the weakest use of the technique (stated in DESIGN.md)"], best_verdict="PATH_COMPLETE", traced=False,
               budget_s=(200, 600), per_path_s=(30, 60)),
]
