"""C11 - reading foreign PROV-JSON / PROV-XML is stable under re-serialisation; nothing is dropped or invented."""
from symprov.oblig import Obligation
from harness.common import stub_logging_str

PRELOAD = ("prov.model", "prov.serializers.provjson", "prov.serializers.provxml")
VALUE_SPELLINGS = ["bare string", "{$,type=xsd:string}", "[bare string]", "bare int", "{$:int,type=xsd:int}", "{$:'lexical',type=xsd:int}",
                   "{$:int,type=xsd:long}", "bare true/false", "{$:'true',type=xsd:boolean}", "{$:bool,type=xsd:boolean}", "{$,lang}",
                   "{$,type=prov:QUALIFIED_NAME}", "{$,type=xsd:anyURI}", "{$:'1.5',type=xsd:double}", "{$:1.5,type=xsd:double}",
                   "{$,type=xsd:dateTime}", "{$,type=ex:custom}", "[two values: bare string, typed int]", "[one typed value]", "{$,type=xsd:QName}", "hostile catalogue string"]


def _M(ctx, pairs):
    """a JSON object: real dict on the unmodified build, ==-scanning ordered map in Stage A (keys may be symbolic)"""
    if ctx.sym:
        from symprov.dehash import LDict

        return LDict(pairs)
    return dict(pairs)


def _value(ctx, i):
    name = VALUE_SPELLINGS[i]
    M = lambda pairs: _M(ctx, pairs)  # noqa
    if name == "bare string":
        return ctx.str("s", 2, 0, "any")
    if name == "{$,type=xsd:string}":
        return M([("$", ctx.str("s", 2, 0, "any")), ("type", "xsd:string")])
    if name == "[bare string]":
        return [ctx.str("s", 2, 0, "any")]
    if name == "bare int":
        return ctx.bigint("n")
    if name == "{$:int,type=xsd:int}":
        return M([("$", ctx.bigint("n")), ("type", "xsd:int")])
    if name == "{$:'lexical',type=xsd:int}":
        return M([("$", str(ctx.bigint("n"))), ("type", "xsd:int")])
    if name == "{$:int,type=xsd:long}":
        return M([("$", ctx.bigint("n")), ("type", "xsd:long")])
    if name == "bare true/false":
        return ctx.bool("b")
    if name == "{$:'true',type=xsd:boolean}":
        return M([("$", ("true", "false", "1", "0")[ctx.choose("bl", 4)]), ("type", "xsd:boolean")])
    if name == "{$:bool,type=xsd:boolean}":
        return M([("$", ctx.bool("b")), ("type", "xsd:boolean")])
    if name == "{$,lang}":
        return M([("$", ctx.str("s", 2, 0, "any")), ("lang", "en")])
    if name == "{$,type=prov:QUALIFIED_NAME}":
        return M([("$", "ex:" + ctx.str("q", 2, 1, "name")), ("type", "prov:QUALIFIED_NAME")])
    if name == "{$,type=xsd:anyURI}":
        return M([("$", ctx.str("u", 3, 0, "any")), ("type", "xsd:anyURI")])
    if name == "{$:'1.5',type=xsd:double}":
        return M([("$", ("1.5", "1e300", "-0.0")[ctx.choose("fl", 3)]), ("type", "xsd:double")])
    if name == "{$:1.5,type=xsd:double}":
        return M([("$", (1.5, 0.1)[ctx.choose("fl", 2)]), ("type", "xsd:double")])
    if name == "{$,type=xsd:dateTime}":
        return M([("$", ("2020-01-02T03:04:05", "2020-01-02T03:04:05.123456+05:30")[ctx.choose("t", 2)]), ("type", "xsd:dateTime")])
    if name == "{$,type=ex:custom}":
        return M([("$", ctx.str("s", 2, 0, "any")), ("type", "ex:custom")])
    if name == "[two values: bare string, typed int]":
        return [ctx.str("s", 2, 0, "any"), M([("$", ctx.bigint("n")), ("type", "xsd:int")])]
    if name == "[one typed value]":
        return [M([("$", ctx.str("s", 2, 0, "any")), ("type", "xsd:string")])]
    if name == "hostile catalogue string":
        from harness.docspace import HOSTILE

        h = HOSTILE[ctx.choose("h", len(HOSTILE))]
        return (h, M([("$", h), ("type", "xsd:string")]), M([("$", h), ("lang", "en")]), M([("$", h), ("type", "ex:custom")]))[ctx.choose("hform", 4)]
    return M([("$", "ex:abc"), ("type", "xsd:QName")])


def _normalise_memberships(desc):
    """the library turns hadMember with k entities into k membership records (the first keeps the identifier)"""
    PROV = "http://www.w3.org/ns/prov#"

    def split(recs):
        out = []
        for r in recs:
            if r[0] == PROV + "Membership":
                ents = [a for a in r[2] if a[0] == PROV + "entity"]
                if len(ents) > 1:
                    rest = [a for a in r[2] if a[0] != PROV + "entity"]
                    coll = [a for a in r[2] if a[0] == PROV + "collection"]
                    out.append((r[0], r[1], rest + [ents[0]]))
                    for e in ents[1:]:
                        out.append((r[0], None, coll + [e]))
                    continue
            out.append(r)
        return out

    return {"records": split(desc["records"]), "bundles": [(b, split(r)) for b, r in desc["bundles"]]}


def _copy_tree(ctx, t):
    if hasattr(t, "items") and hasattr(t, "keys"):
        return _M(ctx, [(k, _copy_tree(ctx, t[k])) for k in t.keys()])
    if isinstance(t, list):
        return [_copy_tree(ctx, x) for x in t]
    return t


def foreign_json(ctx):
    import prov
    from prov.model import ProvDocument
    from prov.serializers.provjson import decode_json_document, encode_json_document
    from oracles import strict as S
    from oracles import provjson_reader as R

    stub_logging_str(ctx)
    P = ctx.params
    M = lambda pairs: _M(ctx, pairs)  # noqa
    shape = P["shape"]
    top = [("prefix", M([("ex", "http://e/"), ("bid", "http://bid/")] + ([("default", "http://d/")] if P.get("default") else [])))]
    if shape == "value":
        attr = ("ex:k", "prov:type", "prov:label", "prov:value", "k")[P["attr"]] if P.get("default") else ("ex:k", "prov:type", "prov:label", "prov:value")[P["attr"] % 4]
        top.append(("entity", M([("ex:e1", M([(attr, _value(ctx, P["spelling"]))]))])))
    elif shape == "formal_wrapped":
        # single values of formal attributes wrapped in arrays; time given typed or plain
        body = [("prov:entity", ["ex:e1"] if ctx.bool("wrap1") else "ex:e1"), ("prov:activity", ["ex:a1"] if ctx.bool("wrap2") else "ex:a1")]
        if ctx.bool("time"):
            body.append(("prov:time", ["2020-01-02T03:04:05"] if ctx.bool("wrap3") else "2020-01-02T03:04:05"))
        if ctx.bool("extra"):
            body.append(("ex:k", _value(ctx, ctx.choose("sp", 5))))
        rid = "ex:g1" if ctx.bool("identified") else "_:g1"
        top.append(("entity", M([("ex:e1", M([]))])))
        top.append(("activity", M([("ex:a1", M([]))])))
        top.append(("wasGeneratedBy", M([(rid, M(body))])))
    elif shape == "membership":
        n = 1 + ctx.choose("members", 3)
        ents = ["ex:m%d" % i for i in range(n)]
        body = [("prov:collection", "ex:c"), ("prov:entity", ents if (n > 1 or ctx.bool("wrap")) else ents[0])]
        top.append(("entity", M([("ex:c", M([]))] + [(e, M([])) for e in ents])))
        top.append(("hadMember", M([("ex:hm" if ctx.bool("identified") else "_:hm", M(body))])))
    elif shape == "membership_pair":
        # a membership listing several entities FOLLOWED by further single-entity memberships (no state may leak)
        n = 2 + ctx.choose("members", 2)
        ents = ["ex:m%d" % i for i in range(n)]
        first = ("ex:hm1", M([("prov:collection", "ex:c1"), ("prov:entity", ents)]))
        second = ("ex:hm2", M([("prov:collection", "ex:c2"), ("prov:entity", ["ex:x"] if ctx.bool("wrap") else "ex:x")]))
        third = ("_:hm3", M([("prov:collection", "ex:c2"), ("prov:entity", "ex:y")]))
        order = ctx.choose("order", 3)
        stmts = [[first, second, third], [second, first, third], [third, second, first]][order]
        top.append(("entity", M([(e, M([])) for e in ["ex:c1", "ex:c2", "ex:x", "ex:y"] + ents])))
        top.append(("hadMember", M(stmts)))
    elif shape == "record_array":
        # an array of record objects under one identifier (repeated identifier), 1-3 entries, symbolic values
        n = 1 + ctx.choose("copies", 3)
        objs = [M([("ex:k", _value(ctx, (0, 3, 4)[ctx.choose("sp", 3)]))]) for _ in range(n)]
        if ctx.bool("first_empty"):
            objs[0] = M([])   # a record without attributes followed by further records under the same identifier
        kind = ("entity", "agent", "activity")[ctx.choose("kind", 3)]
        top.append((kind, M([("ex:x", objs if (n > 1 or ctx.bool("wrap")) else objs[0])])))
    elif shape == "bundle_prefix":
        # bundle with its own prefix block (new prefix, shadowing prefix, own default namespace)
        mode = ctx.choose("bmode", 4)
        bp = [[("p2", "http://p2/")], [("ex", "http://other/")], [("default", "http://bd/")], []][mode]
        name = ("p2:b1", "ex:b1", "b1", "ex:b1")[mode]
        # the bundle's own name: resolvable, or not (undeclared prefix / no default namespace in scope / empty)
        bkey = ("bid:bundle1", "nope:bundle1", "bundle1", "bid:")[ctx.choose("bkey", 4)]
        # the submission does not say in which scope a bundle's own unprefixed name resolves when the bundle redeclares the default namespace
        ctx.assume(not (bkey == "bundle1" and mode == 2))
        inner = [("prefix", M(bp))] if bp else []
        inner.append(("entity", M([(name, M([("ex:k", _value(ctx, ctx.choose("sp", 3)))]))])))
        top.append(("entity", M([("ex:top", M([]))])))
        top.append(("bundle", M([(bkey, M(inner))])))  # the bundle's own identifier uses a prefix it does not redeclare
    else:
        # formal attribute with two values: must be refused with a library error
        top.append(("entity", M([("ex:e1", M([]))])))
        top.append(("wasGeneratedBy", M([("_:g", M([("prov:entity", ["ex:e1", "ex:e2"]), ("prov:activity", "ex:a1")]))])))
    tree = M(top)
    # the generator's own denotation, by the independent reader
    try:
        want = _normalise_memberships(R.read(_copy_tree(ctx, tree)))
        spec_error = None
    except R.JsonSpecViolation as e:
        want, spec_error = None, e
    d = ProvDocument()
    try:
        decode_json_document(_copy_tree(ctx, tree), d)
        raised = None
    except prov.Error as e:
        raised = e
    except Exception as e:
        ctx.fail("loading well-formed PROV-JSON raised %s instead of a library error" % type(e).__name__)
    if shape == "two_formal_values":
        ctx.check(raised is not None, "a formal attribute with two values was accepted")
        ctx.observe("raised", True)
        return
    if raised is not None:
        # a library error is an allowed outcome only where the specification's reader rejects the text, too
        ctx.check(spec_error is not None, "loading well-formed PROV-JSON raised a library error: %s" % type(raised).__name__)
        ctx.observe("raised", True)
        return
    have = S.doc_desc(d)
    if want is not None:
        ctx.check(S.doc_eq(want, have), "loading dropped, invented or changed records / values relative to the text's own denotation")
    d2 = ProvDocument()
    try:
        decode_json_document(encode_json_document(d), d2)
    except Exception as e:
        ctx.fail("writing + loading the loaded document raised %s" % type(e).__name__)
    ctx.check(S.doc_eq(have, S.doc_desc(d2)), "write + load of the loaded document does not give the same document again")
    for b in d.bundles:
        ctx.check(b.identifier is not None, "loading produced a bundle without identifier")
    if not ctx.sym:
        # text level and across formats
        text = d.serialize(format="json")
        d3 = ProvDocument.deserialize(content=text, format="json")
        ctx.check(S.doc_eq(have, S.doc_desc(d3)), "JSON text round trip of the loaded document changed it")
        if P.get("xml_ok", True):
            xml = d.serialize(format="xml")
            d4 = ProvDocument.deserialize(content=xml, format="xml")
            ctx.check(S.doc_eq(have, S.doc_desc(d4)), "JSON -> document -> XML -> document changed the content: %s"
                      % S.first_difference(have, S.doc_desc(d4)))
    ctx.observe("content~", have)


XML_CASES = ["subtype element", "xsi:type on element", "bundleContent with own namespaces", "plain and typed values", "default namespace names",
             "namespace declared on an attribute element"]


def foreign_xml(ctx):
    """specification-driven PROV-XML texts the library's writer never produces (concrete text, choice-complete)"""
    import prov
    from prov.model import ProvDocument
    from oracles import strict as S
    from oracles import provxml_reader as R

    stub_logging_str(ctx)
    case = ctx.params["case"]
    ns = 'xmlns:prov="http://www.w3.org/ns/prov#" xmlns:xsd="http://www.w3.org/2001/XMLSchema" xmlns:xsi="http://www.w3.org/2001/XMLSchema-instance" xmlns:ex="http://e/"'
    if case == 0:
        el = ("person", "organization", "softwareAgent", "plan", "collection", "emptyCollection", "bundle", "wasRevisionOf", "wasQuotedFrom", "hadPrimarySource")[ctx.choose("el", 10)]
        extra = '<prov:type xsi:type="xsd:QName">ex:T</prov:type>' if ctx.bool("extra_type") else ""
        if el.startswith("was") or el.startswith("had"):
            body = '<prov:%s%s><prov:generatedEntity prov:ref="ex:e2"/><prov:usedEntity prov:ref="ex:e1"/>%s</prov:%s>' % (
                el, ' prov:id="ex:r"' if ctx.bool("id") else "", extra, el)
        else:
            body = '<prov:%s prov:id="ex:x"><prov:label>l</prov:label>%s</prov:%s>' % (el, extra, el)
    elif case == 1:
        t = ("prov:Person", "ex:Custom", "prov:Plan")[ctx.choose("t", 3)]
        body = '<prov:%s prov:id="ex:x" xsi:type="%s"/>' % (("agent", "entity")[ctx.choose("base", 2)], t)
    elif case == 2:
        mode = ctx.choose("mode", 3)
        decl = ('xmlns:p2="http://p2/"', 'xmlns:ex="http://other/"', 'xmlns="http://bd/"')[mode]
        name = ("p2:b", "ex:b", "b")[mode]
        body = '<prov:entity prov:id="ex:top"/><prov:bundleContent prov:id="ex:bundle1" %s><prov:entity prov:id="%s"><ex:k>v</ex:k></prov:entity></prov:bundleContent>' % (decl, name)
    elif case == 3:
        v = ('<ex:k>plain</ex:k>', '<ex:k xsi:type="xsd:int">5</ex:k>', '<ex:k xsi:type="xsd:string"></ex:k>', '<ex:k xml:lang="en">hi</ex:k>',
             '<ex:k xsi:type="xsd:QName">ex:q</ex:k>', '<ex:k xsi:type="xsd:anyURI">http://x/</ex:k>', '<ex:k xsi:type="xsd:boolean">true</ex:k>',
             '<ex:k xsi:type="xsd:double">1.5</ex:k>', '<ex:k xsi:type="xsd:dateTime">2020-01-02T03:04:05</ex:k>', '<ex:k/>',
             '<ex:k xsi:type="xsd:string">  padded\n </ex:k>', '<prov:value xsi:type="xsd:string"> x </prov:value>', '<ex:k xsi:type="ex:custom"> c </ex:k>',
             '<ex:k xml:lang="en"> hi </ex:k>', '<ex:k>  plain padded </ex:k>', '<ex:k xsi:type="xsd:int"> 5 </ex:k>')[ctx.choose("v", 16)]
        body = '<prov:entity prov:id="ex:x">%s</prov:entity>' % v
    elif case == 4:
        ns += ' xmlns="http://d/"'
        body = '<prov:entity prov:id="e1"><k>v</k><prov:type xsi:type="xsd:QName">T</prov:type></prov:entity>'
    else:
        # a namespace declared on the attribute element itself (new prefix, or shadowing a prefix of the root)
        which = ctx.choose("where", 4)
        body = ('<prov:entity prov:id="ex:x"><v:k xmlns:v="http://v/">t</v:k></prov:entity>',
                '<prov:entity prov:id="ex:x"><ex:k xmlns:v="http://v/" xsi:type="xsd:QName">v:q</ex:k></prov:entity>',
                '<prov:entity prov:id="ex:x"><ex:k xmlns:ex="http://shadow/" xsi:type="xsd:QName">ex:q</ex:k></prov:entity>',
                '<prov:wasGeneratedBy><prov:entity xmlns:v="http://v/" prov:ref="v:e"/><prov:activity prov:ref="ex:a"/></prov:wasGeneratedBy>')[which]
    text = '<?xml version="1.0" encoding="UTF-8"?>\n<prov:document %s>%s</prov:document>' % (ns, body)
    ctx.observe("case", case)
    if ctx.sym:
        ctx.checks += 1
        return
    try:
        want = R.read(text)
    except R.XmlSpecViolation:
        want = None
    try:
        d = ProvDocument.deserialize(content=text, format="xml")
    except prov.Error:
        return
    except Exception as e:
        ctx.fail("loading well-formed PROV-XML raised %s instead of a library error: %s" % (type(e).__name__, str(e)[:120]))
    have = S.doc_desc(d)
    if want is not None:
        ctx.check(S.doc_eq(want, have), "loading PROV-XML dropped, invented or changed records / values: %s" % S.first_difference(want, have))
    d2 = ProvDocument.deserialize(content=d.serialize(format="xml"), format="xml")
    ctx.check(S.doc_eq(have, S.doc_desc(d2)), "XML write + load of the loaded document changed it: %s" % S.first_difference(have, S.doc_desc(d2)))
    d3 = ProvDocument.deserialize(content=d.serialize(format="json"), format="json")
    ctx.check(S.doc_eq(have, S.doc_desc(d3)), "XML -> document -> JSON -> document changed the content: %s" % S.first_difference(have, S.doc_desc(d3)))


def _json_shards(tier):
    out = []
    for sp in range(len(VALUE_SPELLINGS)):
        for a in range(4):
            out.append({"shape": "value", "attr": a, "spelling": sp, "xml_ok": sp != 19 and not (a == 2 and sp not in (0, 1, 2, 10, 18, 20))})
        out.append({"shape": "value", "attr": 4, "spelling": sp, "default": True, "xml_ok": sp != 19})
    for sh in ("formal_wrapped", "membership", "membership_pair", "record_array", "bundle_prefix", "two_formal_values"):
        out.append({"shape": sh})
        out.append({"shape": sh, "default": True})
    return out


OBLIGATIONS = [
    Obligation(name="foreign_json", fn=foreign_json, shards=_json_shards,
               desc="a specification-driven generator builds PROV-JSON trees the library's writer never produces (20 value spellings x 5 attribute-name classes, single values wrapped in arrays, "
                    "memberships with 1-3 entities, record arrays for repeated identifiers, bundle-level prefix blocks incl. shadowing and own default, formal attributes with two values) with SYMBOLIC "
                    "contents; the real decoder must raise a library error or yield d whose strict content equals the tree's denotation by an independent reader, and decode(encode(d)) == d; "
                    "witnesses additionally go through JSON text and JSON -> XML",
               bounds="one record (+ referenced elements) per tree; strings |s|<=2 any code points, unbounded ints, float/time lexicals from catalogues",
               assumptions=["trees are well-formed PROV-JSON per the member submission; the independent reader defines their denotation",
                            "an unprefixed bundle name together with a bundle-level default namespace is excluded (scope of the bundle's own name is not defined by the submission)", "stub: str(record) for logger.debug returns a constant"],
               functions=["prov.serializers.provjson.decode_json_document/decode_json_container/decode_json_representation", "prov.model.ProvRecord.add_attributes/_auto_literal_conversion"],
               budget_s=(200, 600), per_path_s=(30, 60)),
    Obligation(name="foreign_xml", fn=foreign_xml, shards=[{"case": c} for c in range(len(XML_CASES))],
               desc="choice-complete PROV-XML texts from the specification (10 subtype elements, xsi:type on elements, bundleContent with own / shadowing / default namespaces, 10 value spellings, "
                    "default-namespace names): load -> either library error or a document equal to the text's denotation (independent reader), stable under XML and under JSON re-serialisation",
               bounds="concrete texts; the path search enumerates the spelling choices", assumptions=["texts are well-formed PROV-XML"],
               functions=["prov.serializers.provxml.ProvXMLSerializer.deserialize/deserialize_subtree/_extract_attributes/xml_qname_to_QualifiedName"],
               shims=["lxml crossed in Stage B only"], best_verdict="PATH_COMPLETE", budget_s=(100, 300), per_path_s=(30, 60)),
]
