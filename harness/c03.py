"""C03 - qualified names keep their URI and stay unambiguous under any namespace history."""
import itertools

from symprov.oblig import Obligation

BUILTIN = [("prov", "http://www.w3.org/ns/prov#"), ("xsd", "http://www.w3.org/2001/XMLSchema#"),
           ("xsi", "http://www.w3.org/2001/XMLSchema-instance")]
OPS = ["add_namespace", "set_default", "resolve_qname", "resolve_prefixed_str", "resolve_bare", "resolve_full_uri"]


def _bounds(tier):
    return {"quick": dict(P=3, U=3, L=2), "thorough": dict(P=3, U=4, L=2)}[tier]


def history(ctx):
    from prov.model import ProvDocument
    from prov.identifier import Namespace, QualifiedName
    from oracles.strict import namespaces_desc

    steps = ctx.params["steps"]  # list of (scope index, op index)
    nscopes = ctx.params["scopes"]
    B = _bounds(ctx.params["tier"])
    d = ProvDocument()
    scopes = [d]
    if nscopes >= 2:
        scopes.append(d.bundle(Namespace("b", "http://b/")["b"]))
    if nscopes >= 3:
        scopes.append(d.bundle(Namespace("b", "http://b/")["c"]))
    handed = []      # (scope index, qname) names handed out so far
    registered = []  # (scope index, prefix actually bound, uri requested)
    prefixes = ["prov", "xsd", "xsi", "b"]  # every prefix spelled so far in this history
    uris = []        # every namespace URI spelled so far

    def shadow_request(si, p, u):
        # ... also when the bundle only records the prefix as an alias (_prefix_renamed_map) of an existing namespace
        if si > 0 and len(p) > 0:
            for dn in scopes[0].namespaces:
                ctx.finding("C03.bundle_shadows_parent_prefix", dn.prefix == p and dn.uri != u)

    def shadow():
        # region of open finding C03.bundle_shadows_parent_prefix: a prefix (given or minted, e.g. xsd_1) is bound
        # in a bundle and in the document to different URIs; 'p:l' strings resolved through the document before, or
        # printed from names the document handed out, then denote something else inside the bundle
        for b in scopes[1:]:
            for bn in b.namespaces:
                for dn in scopes[0].namespaces:
                    ctx.finding("C03.bundle_shadows_parent_prefix", bn.prefix == dn.prefix and bn.uri != dn.uri)
            # ... the same for the empty prefix: bundle and document both have a default namespace, and they differ
            bd = b.get_default_namespace()
            dd = scopes[0].get_default_namespace()
            if bd is not None and dd is not None:
                ctx.finding("C03.bundle_shadows_parent_prefix", bd.uri != dd.uri)

    def seen(p=None, u=None):
        # region of open finding C03.uri_scheme_is_prefix: a namespace URI that starts with '<prefix in play>:'
        # makes 'prefix:local' strings and full-URI strings indistinguishable (see known_findings.json)
        if p is not None and len(p) > 0:
            prefixes.append(p)
        if u is not None:
            uris.append(u)
        for pp in ([p] if p is not None and len(p) > 0 else prefixes):
            for uu in ([u] if u is not None else uris):
                ctx.finding("C03.uri_scheme_is_prefix", uu.startswith(pp + ":"))
        if p is not None and len(p) > 0 and u is not None:
            for uu in uris[:-1]:
                ctx.finding("C03.uri_scheme_is_prefix", uu.startswith(p + ":"))
            for pp in prefixes[:-1]:
                ctx.finding("C03.uri_scheme_is_prefix", u.startswith(pp + ":"))
    for si, op in steps:
        S = scopes[si]
        r = None
        if op == 0:
            p = ctx.str("p", B["P"], 1, "prefix")
            u = ctx.str("u", B["U"], 2, "uri")
            seen(p, u)
            shadow_request(si, p, u)
            before = [(n.prefix, n.uri) for n in S.namespaces]
            ns = S.add_namespace(p, u)
            ctx.check(ns.uri == u, "add_namespace(%s) returned a namespace with another URI" % si)
            for bp, bu in before + BUILTIN:
                if bp == ns.prefix:
                    ctx.check(bu == u, "clashing registration re-used a bound prefix for a different URI")
            registered.append((si, ns.prefix, u))
        elif op == 1:
            cur = S.get_default_namespace()
            if cur is None:
                u = ctx.str("u", B["U"], 2, "uri")
                seen(None, u)
            else:
                u = cur.uri  # discipline: a default namespace is only ever re-set to the same URI
            S.set_default_namespace(u)
        else:
            l = ctx.str("l", B["L"], 1, "local")
            if op == 2:
                u = ctx.str("u", B["U"], 2, "uri")
                if ctx.bool("p_empty"):
                    p = ""
                    cur = S.get_default_namespace()
                    # discipline: do not bind a second, different default namespace through an empty prefix
                    # (the library then mints 'dn', which is allowed and checked below as a normal resolution)
                else:
                    p = ctx.str("p", B["P"], 1, "prefix")
                seen(p, u)
                shadow_request(si, p, u)
                q = QualifiedName(Namespace(p, u), l)
                r = S.valid_qualified_name(q)
                ctx.check(r is not None, "QualifiedName resolved to None")
                ctx.check(r.uri == q.uri, "(a) resolving a QualifiedName changed its URI")
            elif op == 3:
                p = ctx.str("p", B["P"], 1, "prefix")
                seen(p, None)
                r = S.valid_qualified_name(p + ":" + l)
            elif op == 4:
                r = S.valid_qualified_name(l)
            else:
                u = ctx.str("u", B["U"], 2, "uri")
                seen(None, u)
                r = S.valid_qualified_name(u + l)
            if r is not None:
                # region of open finding C03.empty_local: a string equal to a namespace URI is compacted to a name
                # with an EMPTY local part, which in the default namespace prints as '' and cannot be resolved again
                ctx.finding("C03.empty_local", len(r.localpart) == 0)
                # region of open finding C03.default_local_with_colon: URI compaction against the DEFAULT namespace
                # hands out a bare name whose local part contains ':'; printed, it reads as 'prefix:local'
                if not r.namespace.prefix:
                    ctx.finding("C03.default_local_with_colon", ":" in r.localpart)
                handed.append((si, r))
        shadow()
        # (b) every registered prefix still maps to the URI it was registered with
        for sj, pfx, u0 in registered:
            nss = [n for n in scopes[sj].namespaces if n.prefix == pfx]
            ctx.check(len(nss) == 1, "(b) registered prefix lost or duplicated")
            ctx.check(nss[0].uri == u0, "(b) registered prefix silently re-pointed")
        # ... and the predeclared prefixes prov / xsd / xsi keep their meaning in every scope
        for sc in scopes:
            for bp, bu in BUILTIN:
                r0 = sc.valid_qualified_name(bp + ":x")
                ctx.check(r0 is not None and r0.uri == bu + "x", "(b) a predeclared prefix (prov/xsd/xsi) was re-pointed")
        # (c) every handed-out name, printed and resolved again in its scope, denotes the same URI
        for sj, q in handed:
            r2 = scopes[sj].valid_qualified_name(str(q))
            ctx.check(r2 is not None, "(c) printed name no longer resolves")
            ctx.check(r2.uri == q.uri, "(c) printed name resolves to another URI")
    ctx.observe("ns", [namespaces_desc(s) for s in scopes])
    ctx.observe("handed", [(sj, str(q), q.uri) for sj, q in handed])


def _shards(tier):
    out = []
    if tier == "quick":
        # all histories of length 2 over {document, bundle}; length-3 histories for the document alone are thorough
        for scopes, k in ((2, 2),):
            acts = list(itertools.product(range(scopes), range(6)))
            for seq in itertools.product(acts, repeat=k):
                if not _useful(seq):
                    continue
                out.append({"scopes": scopes, "steps": [list(x) for x in seq]})
        # selected three-step histories (the full set is the thorough tier)
        for seq in ([(0, 1), (0, 2), (0, 2)], [(1, 1), (1, 2), (1, 2)], [(0, 0), (0, 0), (0, 3)], [(0, 0), (1, 0), (1, 3)],
                    [(0, 1), (1, 2), (1, 4)], [(1, 0), (1, 0), (1, 3)]):
            out.append({"scopes": 2, "steps": [list(x) for x in seq]})
    else:
        acts = list(itertools.product(range(2), range(6)))
        for seq in itertools.product(acts, repeat=2):
            if _useful(seq):
                out.append({"scopes": 2, "steps": [list(x) for x in seq]})
        for seq in itertools.product(acts, repeat=3):
            if _useful(seq):
                out.append({"scopes": 2, "steps": [list(x) for x in seq]})
    return out


def _useful(seq):
    # a history whose last step is a registration/default with no earlier resolution only re-checks (b) trivially;
    # keep everything except histories made only of set_default steps
    return any(op != 1 for _, op in seq)


OBLIGATIONS = [
    Obligation(
        name="history",
        fn=history,
        shards=_shards,
        desc="after every step of a namespace history on a document and its bundle: (a) QualifiedName keeps its URI, "
             "(b) registered prefixes are never re-pointed, (c) every handed-out name re-resolves to the same URI",
        bounds={"quick": "histories of exactly 2 steps over {document, bundle} x 6 operations; |prefix|<=3, |uri|<=3, |local|<=2",
                "thorough": "histories of 2 and 3 steps over {document, bundle} x 6 operations; |prefix|<=3, |uri|<=4, |local|<=2"},
        assumptions=[
            "prefix non-empty, no ':', first character not '_' (superset of PN_PREFIX)",
            "namespace URI has absolute-IRI shape scheme ':' rest (ASCII, no whitespace/control)",
            "local part non-empty, no ':'",
            "a scope's default namespace is set only while unset, or re-set to the same URI",
        ],
        functions=["prov.model.NamespaceManager.add_namespace", "prov.model.NamespaceManager.valid_qualified_name",
                   "prov.model.NamespaceManager.set_default_namespace", "prov.model.NamespaceManager._get_unused_prefix",
                   "prov.identifier.Namespace.__eq__/__getitem__/qname", "prov.identifier.QualifiedName.__init__",
                   "prov.model.ProvBundle.add_namespace/valid_qualified_name", "prov.model.ProvDocument.bundle"],
        budget_s=(200, 600),
        per_path_s=(20, 40),
        stop_on_refute=True,
    )
]
