"""C18 - identifier lookup and typed listing always agree with the record list."""
from symprov.oblig import Obligation
from harness.common import EX, add_record, new_doc

PATHS = ["factory", "add_record", "update", "constructor_records", "unified", "flattened", "add_bundle_document",
         "json_container_decode"]
# (kind index, identified?)   relations get fixed endpoints ex:a / ex:b
REC_KINDS = [(0, True), (1, True), (9, True), (2, True), (3, False), (8, True), (16, False), (14, False)]


def _spell(ctx, tag, local, menu=(0, 1, 2, 3, 4, 5)):
    from prov.identifier import Namespace, QualifiedName

    i = menu[ctx.choose(tag, len(menu))]
    if i == 0:
        return "ex:" + local
    if i == 1:
        return QualifiedName(Namespace("ex", EX), local)
    if i == 2:
        return "ex2:" + local
    if i == 3:
        return EX + local
    if i == 4:
        return local  # bare name, resolved through the default namespace
    return QualifiedName(Namespace("zz", EX), local)  # QualifiedName under a prefix the container has never seen


def lookup(ctx):
    import prov.model as pm
    from prov.model import ProvDocument

    path = ctx.params["path"]
    n = ctx.params["n"]
    src = new_doc(default=EX)
    target = src
    if path == 5:
        target = src.bundle("en:bb")
    made = []
    menus = MENUS[ctx.params["menu"]]
    for i in range(n):
        kinds, spells = menus[min(i, len(menus) - 1)]
        k, identified = REC_KINDS[kinds[ctx.choose("kind", len(kinds))]]
        loc = ctx.str("id", 2, 1, "name")
        ident = _spell(ctx, "idspell", loc, spells) if identified else None
        args = None if k in (0, 1, 9) else (["en:a", "en:b", "en:bb"] if k == 16 else ["en:a", "en:b"])
        made.append(add_record(target, k, ident, args))
        if path == 5 and i == 0 and n > 1:
            target = src  # first record in the bundle, the others at top level
    # ---- derive the container under test through the chosen insertion path -----------------------------------
    if path == 0:
        c = src
    elif path == 1:
        c = ProvDocument()
        for r in src.get_records():
            c.add_record(r)
    elif path == 2:
        c = new_doc()
        c.entity("en:pre")
        c.update(src)
    elif path == 3:
        c = ProvDocument(records=src.get_records())
    elif path == 4:
        c = src.unified()
    elif path == 5:
        c = src.flattened()
    elif path == 6:
        holder = new_doc()
        holder.add_bundle(src, "en:bb")
        c = [b for b in holder.bundles][0]
    else:
        from prov.serializers.provjson import decode_json_document, encode_json_document

        c = ProvDocument()
        decode_json_document(encode_json_document(src), c)
    # a record whose prefix 'ex' is bound to ANOTHER URI arrives from a third document (prefix clash -> renamed)
    ns_ex = c.add_namespace("ex", EX)
    # (only when 'ex' really is bound to EX here; if EX was already known under another prefix, 'ex' is a mere alias
    #  and a later binding of 'ex' would legitimately change what the string 'ex:l' denotes)
    if ns_ex.prefix == "ex" and ctx.params.get("extra") == "clash":
        third = ProvDocument()
        third.add_namespace("ex", "http://other/")
        c.add_record(third.entity("ex:" + ctx.str("id", 2, 1, "name")))
    # when the container is a bundle, its document holds a record under the very name that is looked up
    parent_loc = None
    if not c.is_document() and c.document is not None and ctx.params.get("extra") == "parent":
        parent_loc = True
    c.add_namespace("ex", EX)
    c.add_namespace("ex2", EX)
    if c.get_default_namespace() is None and (c.is_document() or c.document.get_default_namespace() is None):
        c.set_default_namespace(EX)
    # ---- query ---------------------------------------------------------------------------------------------------
    q = ctx.str("q", 2, 1, "name")
    if parent_loc:
        c.document.add_namespace("ex", EX)
        c.document.entity("ex:" + q, {"en:where": "document level"})
    x = _spell(ctx, "qspell", q)
    before = list(c.get_records())
    expected = [r for r in before if r.identifier is not None and r.identifier.uri == EX + q]
    got = c.get_record(x)
    ctx.check(got is not None, "get_record returned None for a resolvable name")
    got = list(got)
    ctx.check(len(got) == len(expected), "get_record returned %d records, the record list holds %d with that URI"
              % (len(got), len(expected)))
    for a, b in zip(got, expected):
        ctx.check(a is b, "get_record returned other records / another order than the record list")
    after = c.get_records()
    ctx.check(len(after) == len(before) and all(a is b for a, b in zip(after, before)),
              "a lookup changed the record list")
    # typed listing
    for cls in (pm.ProvEntity, pm.ProvActivity, pm.ProvAgent, pm.ProvElement, pm.ProvRelation, pm.ProvGeneration,
                pm.ProvUsage, pm.ProvDerivation, pm.ProvSpecialization, pm.ProvMention, (pm.ProvEntity, pm.ProvUsage),
                (pm.ProvSpecialization, pm.ProvAgent)):
        want = [r for r in before if isinstance(r, cls)]
        have = list(c.get_records(cls))
        ctx.check(len(want) == len(have) and all(a is b for a, b in zip(want, have)),
                  "get_records(cls) differs from the isinstance filter of the record list")
    # records is an independent copy
    rs = c.records
    ctx.check(len(rs) == len(before) and all(a is b for a, b in zip(rs, before)), "records differs from get_records()")
    rs.append(None)
    del rs[0:1]
    after = c.get_records()
    ctx.check(len(after) == len(before) and all(a is b for a, b in zip(after, before)),
              "mutating the list returned by .records changed the container")
    # every record of the container is found under its own identifier, in every container the path produced
    for r in before:
        if r.identifier is not None:
            ctx.check(any(g is r for g in c.get_record(r.identifier)), "a record is not indexed under its identifier")
    ctx.observe("ids", [None if r.identifier is None else r.identifier.uri for r in before])
    ctx.observe("hits", len(got))


def _agree(ctx, c, x, what):
    """get_record(x) == the records of c whose identifier URI is the URI x denotes in c NOW"""
    q = c.valid_qualified_name(x)
    ctx.check(q is not None, "%s: the spelling does not resolve in the container" % what)
    want = [r for r in c.get_records() if r.identifier is not None and r.identifier.uri == q.uri]
    got = c.get_record(x)
    got = [] if got is None else list(got)
    ctx.check(len(got) == len(want), "%s: get_record returned %d records, the record list holds %d with the URI the name denotes"
              % (what, len(got), len(want)))
    for a, b in zip(got, want):
        ctx.check(a is b, "%s: get_record returned other records than the record list holds under that URI" % what)
    return want


DERIVED = ["unified", "bundle.unified", "flattened", "update into empty", "constructor_records", "add_record", "json_container_decode",
           "add_bundle(bundle)"]


def own_spelling(ctx):
    """a derived container resolves the spelling IT prints for each of its records, without any help from the caller"""
    from prov.model import ProvDocument

    path = ctx.params["path"]
    src = ProvDocument()
    src.add_namespace("loc", "http://l/" + ctx.str("lu", 1, 0, "name"))
    has_def = ctx.bool("hasdef")
    if has_def:
        src.set_default_namespace("http://d/")
    holder = src.bundle("loc:bb") if path in (1, 2, 7) else src
    l1 = ctx.str("id", 2, 1, "name")
    holder.entity("loc:" + l1, {"loc:k": 1})
    holder.entity("loc:" + l1, {"loc:j": 2})
    if has_def:
        holder.activity(ctx.str("id", 2, 1, "name"))
    holder.usage("loc:a", "loc:" + l1)
    if path == 0:
        c = src.unified()
    elif path == 1:
        c = holder.unified()
    elif path == 2:
        c = src.flattened()
    elif path == 3:
        c = ProvDocument()
        c.update(src)
    elif path == 4:
        c = ProvDocument(records=src.get_records())
    elif path == 5:
        c = ProvDocument()
        for r in src.get_records():
            c.add_record(r)
    elif path == 6:
        from prov.serializers.provjson import decode_json_document, encode_json_document

        c = ProvDocument()
        decode_json_document(encode_json_document(src), c)
    else:
        other = ProvDocument()
        other.add_bundle(holder)
        c = [b for b in other.bundles][0]
    n = 0
    for r in c.get_records():
        if r.identifier is None:
            continue
        n += 1
        spelled = str(r.identifier)  # prefix:local (or the bare local name in the default namespace) as this container prints it
        if path == 7 and c.valid_qualified_name(spelled) is None:
            continue  # a bundle moved to another document: names it had resolved through its former document denote nothing now
        want = _agree(ctx, c, spelled, "%s, own spelling" % DERIVED[path])
        ctx.check(any(w is r for w in want), "%s: a record is not found under the spelling its container prints for it" % DERIVED[path])
        _agree(ctx, c, r.identifier, "%s, QualifiedName" % DERIVED[path])
        _agree(ctx, c, r.identifier.uri, "%s, full URI" % DERIVED[path])
    ctx.check(n >= 1, "derived container lost its identified records")
    ctx.observe("n", n)


def same_prefix_three_uris(ctx):
    """records arriving from three documents that bind ONE prefix to three URIs stay apart, under every spelling"""
    from prov.identifier import Namespace, QualifiedName
    from prov.model import ProvDocument

    uris = ["http://e/", "http://other/", "http://third/" + ctx.str("tu", 1, 0, "name")]
    c = ProvDocument()
    c.add_namespace("ex", uris[0])
    l = ctx.str("id", 2, 1, "name")
    c.entity("ex:" + l)
    how = ctx.params["how"]
    order = ((1, 2), (2, 1), (1, 1, 2), (1, 2, 1))[ctx.params["order"]]
    for i in order:
        d = ProvDocument()
        d.add_namespace("ex", uris[i])
        r = d.entity("ex:" + (l if ctx.bool("same") else ctx.str("id", 2, 1, "name")), {"ex:k": i})
        if how == 0:
            c.add_record(r)
        elif how == 1:
            c.update(d)
        else:
            c.add_bundle(d, "ex:bundle%d" % len(list(c.bundles)))
            c = c.flattened()
    for i, u in enumerate(uris):
        x = QualifiedName(Namespace("ex", u), l)
        want = _agree(ctx, c, x, "QualifiedName ex:%s in namespace %d" % ("l", i))
        for w in want:
            ctx.check(w.identifier.uri == u + l, "a record is indexed under another URI than its own")
        _agree(ctx, c, u + l, "full URI in namespace %d" % i)
    for r in c.get_records():
        want = _agree(ctx, c, str(r.identifier), "own spelling")
        ctx.check(any(w is r for w in want), "a record is not found under the spelling its container prints for it")
        # attribute names travelled with the record: they keep their URI
        for a, v in r.attributes:
            if a.localpart == "k":
                ctx.check(a.uri == uris[v] + "k", "an attribute name changed its URI when the record arrived")
    ctx.observe("n", len(c.get_records()))


def relookup(ctx):
    """the same string looked up before and after the URI it denotes has changed"""
    from prov.model import ProvDocument

    case = ctx.params["case"]
    d = ProvDocument()
    d.set_default_namespace("http://d0/")
    d.add_namespace("ex", EX)
    q = ctx.str("q", 2, 1, "name")
    d.entity(q)
    d.entity("ex:" + q)
    _agree(ctx, d, q, "before")
    _agree(ctx, d, "ex:" + q, "before")
    ctx.check(len(d.get_record(q + "_absent")) == 0 and len(d.get_record("ex:" + q + "_absent")) == 0, "an absent name returned records")
    if case == 0:
        d.set_default_namespace("http://d1/")
    elif case == 1:
        other = ProvDocument()
        other.set_default_namespace("http://d1/")
        other.entity(q)
        d.update(other)
    else:
        other = ProvDocument()
        other.add_namespace("ex", "http://other/")
        other.entity("ex:" + q)
        d.update(other)
    d.entity(q, {"ex:k": 2})
    d.entity("ex:" + ctx.str("q2", 2, 1, "name"))
    _agree(ctx, d, q, "after")
    _agree(ctx, d, "ex:" + q, "after")
    for r in d.get_records():
        _agree(ctx, d, r.identifier, "QualifiedName")
        _agree(ctx, d, str(r.identifier), "printed spelling")
    ctx.observe("n", len(d.get_records()))


def full_uri(ctx):
    """get_record(<full URI string>) finds the records whose identifier has exactly that URI, for any namespace URI"""
    from prov.model import ProvDocument
    from prov.identifier import Namespace, QualifiedName

    d = ProvDocument()
    u = ctx.str("u", 3, 2, "uri")
    # validity: the scheme of the URI is not a prefix in scope (else 'scheme:rest' reads as a prefixed name)
    for pfx in ("q", "prov", "xsd", "xsi"):
        ctx.assume(not u.startswith(pfx + ":"))
    ns = d.add_namespace("q", u)
    l = ctx.str("l", 4, 1, "ascii")
    other = ctx.str("m", 2, 1, "ascii")
    r1 = d.entity(QualifiedName(ns, l))
    r2 = d.agent(QualifiedName(ns, other))
    for x, rec in ((u + l, r1), (u + other, r2)):
        got = d.get_record(x)
        want = [r for r in d.get_records() if r.identifier.uri == x]
        ctx.check(got is not None and len(list(got)) == len(want) and all(a is b for a, b in zip(got, want)),
                  "get_record(<full URI>) does not return the records having exactly that URI")
        ctx.check(any(g is rec for g in got), "get_record(<full URI of an existing record>) does not find it")
    ctx.observe("u", [u, l, other])


# per record position: (indices into REC_KINDS, spellings of the identifier)
MENUS = {
    "full": [((0, 1, 2, 3, 4, 5, 6, 7), (0, 1, 2, 3, 4, 5))],
    "mid": [((0, 3, 4), (0, 1, 2)), ((0, 3, 4), (0, 3)), ((0, 4), (1,))],
    "small": [((0, 4), (0, 1)), ((0, 3), (2,)), ((0, 4), (3,)), ((0,), (1,))],
}


def _shards(tier):
    out = []
    for p in range(len(PATHS)):
        out.append({"path": p, "n": 1, "menu": "full"})
        out.append({"path": p, "n": 1, "menu": "mid", "extra": "clash"})
        out.append({"path": p, "n": 2, "menu": "small", "extra": "clash"})
        if p == 6:
            out.append({"path": p, "n": 1, "menu": "full", "extra": "parent"})
            out.append({"path": p, "n": 2, "menu": "mid", "extra": "parent"})
        out.append({"path": p, "n": 2, "menu": "mid"})
        if tier == "thorough":
            out.append({"path": p, "n": 2, "menu": "full"})
            out.append({"path": p, "n": 3, "menu": "mid"})
            out.append({"path": p, "n": 4, "menu": "small"})
        else:
            out.append({"path": p, "n": 3, "menu": "small"})
    return out


_H_ASSUME = ["identifier local parts match [A-Za-z][A-Za-z0-9_]* (|l|<=2)"]
_HIST = [
    Obligation(name="own_spelling", fn=own_spelling, shards=[{"path": i} for i in range(len(DERIVED))],
               desc="a container derived by unified / bundle.unified / flattened / update / constructor / add_record / JSON decode / add_bundle resolves, on its own, "
                    "the spelling it prints for each of its records (prefix:local or bare local name), the QualifiedName and the full URI",
               bounds="source: 2 same-identifier entities + optional default-namespace activity + usage, at top level or in a bundle; symbolic locals |l|<=2",
               assumptions=_H_ASSUME, functions=["prov.model.ProvBundle.unified/get_record/add_record", "prov.model.ProvDocument.unified/flattened/update",
                                                 "prov.model.NamespaceManager.valid_qualified_name"], budget_s=(100, 300), per_path_s=(20, 40)),
    Obligation(name="same_prefix_three_uris", fn=same_prefix_three_uris, shards=[{"how": i, "order": o} for i in range(3) for o in range(4)],
               desc="records arriving (add_record / update / add_bundle+flattened) from documents binding the one prefix ex to three different URIs, in 4 orders: "
                    "get_record under QualifiedName, full URI and the container's own spelling agrees with the record list; attribute names keep their URI",
               bounds="1 + 2-3 arriving records; symbolic locals |l|<=2 (same / different decided by the solver); third URI with a symbolic tail",
               assumptions=_H_ASSUME, functions=["prov.model.NamespaceManager.add_namespace (prefix renaming)", "prov.model.ProvBundle.add_record/get_record"],
               budget_s=(100, 300), per_path_s=(20, 40)),
    Obligation(name="relookup", fn=relookup, shards=[{"case": i} for i in range(3)],
               desc="history look-up -> the meaning of the string changes (new default namespace, update() bringing another default namespace / a clashing prefix) -> more records "
                    "-> look-up: get_record(x) returns the records whose URI is the URI x denotes at that moment",
               bounds="document-level; symbolic locals |l|<=2", assumptions=_H_ASSUME,
               functions=["prov.model.ProvBundle.get_record", "prov.model.NamespaceManager.valid_qualified_name/set_default_namespace"],
               budget_s=(100, 300), per_path_s=(20, 40)),
]

OBLIGATIONS = _HIST + [
    Obligation(
        name="full_uri",
        fn=full_uri,
        shards=[{}],
        desc="for a namespace with a SYMBOLIC URI, looking a record up by its full URI string finds exactly that record "
             "(the URI may contain the namespace URI more than once)",
        bounds="namespace URI |u|<=3 (absolute-IRI shape), local parts |l|<=4 and |m|<=2 printable ASCII",
        assumptions=["the URI's scheme is not a prefix in scope (q, prov, xsd, xsi)"],
        functions=["prov.model.NamespaceManager.valid_qualified_name (URI compaction)", "prov.model.ProvBundle.get_record"],
        budget_s=(100, 300),
        per_path_s=(20, 40),
    ),
    Obligation(
        name="lookup",
        fn=lookup,
        shards=_shards,
        desc="get_record(x) equals the scan of get_records() by identifier URI (order, identity) for every spelling of x; "
             "get_records(cls) equals the isinstance filter; records is an independent list; for 8 insertion paths",
        bounds={"quick": "8 insertion paths x {1 record: 6 kinds x 6 id spellings; 2 records: 3 kinds x 3/2 spellings; 3 records: 2 kinds x 2/1/1 spellings}; "
                         "identifiers EX+local with |local|<=2, all aliasing patterns decided by the solver; 6 query spellings",
                "thorough": "as quick plus {2 records: full menus; 3 records: mid menus; 4 records: small menus}"},
        assumptions=["identifier local parts match [A-Za-z][A-Za-z0-9_]* (length<=2)",
                     "the container under test has prefixes ex, ex2 -> http://e/ and default namespace http://e/ registered before the query"],
        functions=["prov.model.ProvBundle._add_record/new_record/add_record/get_record/get_records/records/update/unified/_unified_records",
                   "prov.model.ProvDocument.flattened/add_bundle/update/unified", "prov.serializers.provjson.encode_json_document/decode_json_document",
                   "prov.model.NamespaceManager.valid_qualified_name"],
        budget_s=(150, 900),
        per_path_s=(20, 40),
    )
]
