"""The 'C01 space': symbolic document generators shared by the serialisation properties (C01, C02, C06, C10, C13)."""
import datetime

from harness.common import EX, TIMES, KIND_NAMES, add_record, formal, is_time_attr, kind_type

FLOATS = [0.1, 1e300, -0.0, 1.2345678901234567, 5.0, 1.0, 0.0]
ATTR_NAMES = ["ex:k", "prov:type", "prov:label", "prov:value", "prov:location", "prov:role", "k"]  # "k": name in the default namespace
VALUE_KINDS = ["str", "int", "bool", "float", "datetime", "qname", "qname_other_prefix", "uri", "lang_literal",
               "foreign_literal", "typed_int_literal", "multi_str_int", "multi_qname", "empty_str", "big_text",
               "hostile_str", "hostile_foreign_literal", "hostile_lang_literal", "equal_values_of_different_kinds",
               "xsd_qname_literal", "qname_in_w3c_like_namespace", "lang_literal_mixed_case_tag"]
# namespaces whose URI merely resembles a well-known one (prefix-of / suffix-of the XSD, XSI and PROV namespaces)
W3C_LIKE = [("xsi", "http://www.w3.org/2001/XMLSchema-instance", "nil"), ("dt", "http://www.w3.org/2001/XMLSchema-datatypes#", "x"),
            ("po", "http://www.w3.org/ns/prov-o#", "Entity"),
            ("pv", "http://www.w3.org/ns/prov", "x"), ("xsd2", "http://www.w3.org/2001/XMLSchema#extra/", "int")]
# texts whose handling no branch of prov depends on (so the solver has no reason to pick them): catalogue
HOSTILE = ["  lead", "trail  ", "\n x \n", "a  b", "\t", " ", "prov:x", "None", "line1\n  line2\n\nline4", 'q"uo"te\'s', "back\\slash\\",
           "<b>&amp;</b>", "%41%20", "é中\U0001f600"]
NS_MODES = ["plain", "doc_default", "bundle_default", "clash_prefix", "bundle_own_prefix"]


def uri_guard(ctx, uris, prefixes=()):
    """Region of the open finding <property>.uri_scheme_is_prefix: a namespace URI that starts with '<prefix in
    scope>:' cannot be told from a prefixed name by NamespaceManager.valid_qualified_name (see known_findings.json)."""
    fid = "%s.uri_scheme_is_prefix" % ctx.params.get("prop", "C01")
    for u in uris:
        for p in ("ex", "bid", "prov", "xsd", "xsi") + tuple(prefixes):
            ctx.finding(fid, u.startswith(p + ":"))


def shadow_guard(ctx, d):
    """Region of the open finding <property>.bundle_shadows_parent_prefix: a bundle binds a prefix that its document
    binds to another URI, while names the bundle resolved through the document are printed with that prefix."""
    fid = "%s.bundle_shadows_parent_prefix" % ctx.params.get("prop", "C01")
    from prov.identifier import QualifiedName

    for b in d.bundles:
        names = [b.identifier]  # the bundle's own identifier is a name of the document scope
        for r in b.get_records():
            if r.identifier is not None:
                names.append(r.identifier)
            for a, v in r.attributes:
                names.append(a)
                if isinstance(v, QualifiedName):
                    names.append(v)
                dt = getattr(v, "datatype", None)
                if isinstance(dt, QualifiedName):
                    names.append(dt)  # the datatype of a literal is printed as prefix:local, too
        for bn in b.namespaces:
            for n in names:
                # the bundle binds prefix p to one URI while a name it holds (resolved through the document, or
                # through a foreign Namespace object) is printed with the same prefix p but lives in another namespace
                ctx.finding(fid, n.namespace.prefix == bn.prefix and n.namespace.uri != bn.uri)


def make_value(ctx, d, vk, strlen=2, text_kind="any"):
    """-> list of values (multi-valued kinds return two)"""
    from prov.identifier import Identifier, Namespace, QualifiedName
    from prov.model import Literal
    import prov.constants as pc

    name = VALUE_KINDS[vk]
    if name == "str":
        return [ctx.str("sv", strlen, 0, text_kind)]
    if name == "int":
        return [ctx.bigint("iv")]
    if name == "bool":
        return [ctx.bool("bv")]
    if name == "float":
        return [FLOATS[ctx.choose("fv", len(FLOATS))]]
    if name == "datetime":
        return [TIMES[ctx.choose("tv", len(TIMES))]]
    if name == "qname":
        return [QualifiedName(Namespace("ex", EX), ctx.str("ql", 2, 1, "name"))]
    if name == "qname_other_prefix":
        # a qualified name whose prefix is symbolic and bound to a symbolic URI: may clash with ex / prov / xsd ...
        qp, qu = ctx.str("qp", 3, 1, ctx.params.get("prefix_kind", "prefix")), ctx.str("qu", 3, 2, "uri")
        uri_guard(ctx, [qu], [qp])
        return [QualifiedName(Namespace(qp, qu), ctx.str("ql", 2, 1, "name"))]
    if name == "uri":
        return [Identifier(ctx.str("uv", 3, 0, text_kind))]
    if name == "lang_literal":
        return [Literal(ctx.str("lv", strlen, 0, text_kind), None, ("en", "fr-CA")[ctx.choose("lang", 2)])]
    if name == "foreign_literal":
        return [Literal(ctx.str("lv", strlen, 0, text_kind), QualifiedName(Namespace("ex", EX), ctx.str("dt", 2, 1, "name")))]
    if name == "typed_int_literal":
        return [Literal(str(ctx.bigint("iv")), pc.XSD_INT)]
    if name == "multi_str_int":
        return [ctx.str("sv", strlen, 0, text_kind), ctx.bigint("iv")]
    if name == "multi_qname":
        return [QualifiedName(Namespace("ex", EX), ctx.str("ql", 2, 1, "name")),
                QualifiedName(Namespace("ex", EX), ctx.str("ql", 2, 1, "name"))]
    if name == "empty_str":
        return [""]
    if name == "big_text":
        return ['a "quoted" line\nsecond line with \\ backslash, <tag> & é中\U0001f600 end']
    if name == "hostile_str":
        return [HOSTILE[ctx.choose("hs", len(HOSTILE))]]
    if name == "hostile_foreign_literal":
        return [Literal(HOSTILE[ctx.choose("hs", len(HOSTILE))], QualifiedName(Namespace("ex", EX), "dt"))]
    if name == "hostile_lang_literal":
        return [Literal(HOSTILE[ctx.choose("hs", len(HOSTILE))], None, "en")]
    if name == "xsd_qname_literal":
        # a LITERAL typed xsd:QName (not a qualified name); not XML-expressible (C02's quantifier excludes it)
        return [Literal(("ex:edit", "nope:x", "plain")[ctx.choose("ql", 3)], pc.XSD_QNAME)]
    if name == "qname_in_w3c_like_namespace":
        pfx, uri, loc = W3C_LIKE[ctx.choose("w3", len(W3C_LIKE))]
        # open finding <property>.xsi_prefix_not_declared (PROV-JSON / PROV-N print xsi:... without declaring xsi)
        ctx.finding("%s.xsi_prefix_not_declared" % ctx.params.get("prop", "C01"), pfx == "xsi")
        return [QualifiedName(Namespace(pfx, uri), loc)]
    if name == "lang_literal_mixed_case_tag":
        return [Literal("colour", None, ("en-GB", "zh-Hant-TW", "pt-BR")[ctx.choose("lt", 3)])]
    if name == "equal_values_of_different_kinds":
        # values that compare equal in Python but differ in kind, in DIFFERENT attributes of one record
        return [("ex:t", True), ("ex:one", 1), ("ex:onef", 1.0), ("ex:f", False), ("ex:zero", 0), ("ex:zerof", 0.0), ("ex:mz", -0.0),
                ("ex:t2", True), ("ex:onef2", 1.0)]
    raise ValueError(name)


def values_doc(ctx, attr_idx, vk, ns_mode, in_bundle, strlen=2, text_kind="any"):
    """one entity carrying one attribute (name class attr_idx, value kind vk) under namespace mode ns_mode"""
    from prov.model import ProvDocument

    d = ProvDocument()
    d.add_namespace("ex", EX)
    d.add_namespace("bid", "http://bid/")  # bundle identifiers live under a prefix no bundle re-declares
    mode = NS_MODES[ns_mode]
    uris = []
    if mode in ("doc_default", "bundle_default"):
        uris.append(ctx.str("ddu", 3, 2, "uri"))
        d.set_default_namespace(uris[-1])
    if mode == "clash_prefix":
        # the same prefix requested for another (symbolic) URI: the library must mint a fresh prefix
        uris.append(ctx.str("cu", 3, 2, "uri"))
        d.add_namespace("ex", uris[-1])
    target = d
    if in_bundle:
        target = d.bundle("bid:bundle1")
        if mode == "bundle_default":
            uris.append(ctx.str("bdu", 3, 2, "uri"))
            target.set_default_namespace(uris[-1])
        bp = ()
        if mode == "bundle_own_prefix":
            uris.append(ctx.str("bu", 3, 2, "uri"))
            target.add_namespace("ex", uris[-1])
            bp = (ctx.str("bp", 3, 1, ctx.params.get("prefix_kind", "prefix")),)
            uris.append(ctx.str("bu2", 3, 2, "uri"))
            target.add_namespace(bp[0], uris[-1])
        uri_guard(ctx, uris, bp)
    else:
        uri_guard(ctx, uris)
    vals = make_value(ctx, d, vk, strlen, text_kind)
    attr = ATTR_NAMES[attr_idx]
    if attr == "k" and mode not in ("doc_default", "bundle_default"):
        attr = "ex:k"  # an unprefixed attribute name needs a default namespace
    ident = "e1" if mode in ("doc_default", "bundle_default") else "ex:e1"
    target.entity(ident, [(v if isinstance(v, tuple) else (attr, v)) for v in vals])
    shadow_guard(ctx, d)
    return d


def twin_bundles_doc(ctx):
    """two sibling bundles that bind the SAME prefix (and optionally a default namespace) to symbolic, possibly different
    URIs and use the same attribute-name / identifier strings; plus an empty bundle"""
    from prov.model import ProvDocument

    d = ProvDocument()
    d.add_namespace("ex", EX)
    d.add_namespace("bid", "http://bid/")
    uris = []
    for i in (1, 2):
        b = d.bundle("bid:b%d" % i)
        u = ctx.str("lab%d" % i, 3, 2, "uri")
        uris.append(u)
        b.add_namespace("lab", u)
        mode = ctx.choose("m%d" % i, 3)
        if mode == 1:
            du = ctx.str("def%d" % i, 3, 2, "uri")
            uris.append(du)
            b.set_default_namespace(du)
            b.entity("item", [("lab:weight", ctx.bigint("w%d" % i)), ("size", "L")])
        else:
            b.entity("lab:item", [("lab:weight", ctx.bigint("w%d" % i))] + ([("ex:k", "v")] if mode == 2 else []))
    if ctx.bool("empty_bundle"):
        d.bundle("bid:empty")
    uri_guard(ctx, uris, ["lab"])
    shadow_guard(ctx, d)
    return d


def structure_doc(ctx, k, second=None, in_bundle=False):
    """one record of kind k: every presence mask of the optional formal arguments, identified or anonymous,
    0-1 extra attribute; optionally a second record with the SAME identifier (repeated identifier -> JSON array)"""
    from prov.model import ProvDocument

    d = ProvDocument()
    d.add_namespace("ex", EX)
    target = d.bundle("ex:bundle1") if in_bundle else d
    fa = formal(k)
    args = []
    for i, a in enumerate(fa):
        optional = (k == 1 or i >= 2) and k != 16  # mentionOf: all three arguments are mandatory
        if not optional:
            present = True
        elif second is None or i <= 2:
            present = ctx.bool("present")
        else:
            present = (i % 2 == 1)  # two-record documents: only the first optional argument varies
        if not present:
            args.append(None)
        elif is_time_attr(a):
            args.append(TIMES[ctx.choose("time", len(TIMES))] if second is None else TIMES[i % len(TIMES)])
        else:
            args.append("ex:a%d" % i)
    element = k in (0, 1, 9)
    bare = ctx.params.get("bare_relations") and k in (14, 15, 16, 17)  # kinds without id/attributes in PROV-N
    identified = True if element else (False if bare else ctx.bool("identified"))
    ident = ("ex:" + ctx.str("rid", 2, 1, "name")) if identified else None
    extra = [("ex:k", ctx.bigint("xv"))] if (not bare and ctx.bool("extra")) else None
    add_record(target, k, ident, args, extra)
    if second is not None:
        same = ctx.bool("same_id")
        if second == "same_kind":
            ident2 = ident if (same and identified) else (("ex:" + ctx.str("rid", 2, 1, "name")) if identified else None)
            add_record(target, k, ident2, args, None if bare else [("ex:k2", "v")])
        else:
            ident2 = ident if (same and identified) else "ex:zz"
            add_record(target, 0, ident2 or "ex:zz", None, [("ex:k2", "v")])
    return d
