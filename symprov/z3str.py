"""Z3Str: a CrossHair symbolic str backed by the z3 String (sequence) theory, plus non-forking `pin`."""
import re as _re

import z3
from crosshair.core import realize
from crosshair.libimpl.builtinslib import AnySymbolicStr, SymbolicBool, SymbolicInt
from crosshair.statespace import context_statespace
from crosshair.tracers import NoTracing, ResumedTracing
from crosshair.util import CrossHairValue

PINNED = []  # (what, where) records of concretisations on the current path; reset by the driver per path
PIN_CACHE = {}  # (decision nodes of the path prefix, pin index) -> model values chosen the first time
PIN_COUNT = [0]
PIN_STATS = [0]


def stable_values(space, exprs):
    """Model values for `exprs` under the current path condition, stable across re-executions of the same path prefix.

    A pin adds 'expr == value' without a decision node, so every later decision depends on the value; CrossHair
    re-executes each path prefix many times and a different model (solver timing) would make the run non-deterministic.
    The first choice is therefore remembered per (prefix of decision nodes, pin index)."""
    key = (tuple(id(n) for n in space.choices_made), id(getattr(space, "_search_position", None)), PIN_COUNT[0])
    PIN_COUNT[0] += 1
    hit = PIN_CACHE.get(key)
    if hit is not None and len(hit) == len(exprs):
        PIN_STATS[0] += 1
        return hit
    if space.solver.check() != z3.sat:
        raise RuntimeError("pin on infeasible/unknown path")
    mdl = space.solver.model()
    vals = [mdl.eval(e, model_completion=True) for e in exprs]
    PIN_CACHE[key] = vals
    return vals


def _decode_z3_string(v):
    s = v.as_string()
    return _re.sub(r"\\u\{([0-9a-fA-F]+)\}", lambda m: chr(int(m.group(1), 16)), s)


def _encode_py_string(s):
    """Python str -> z3 StringVal (z3 parses \\u{..} escapes in literals)."""
    if all(32 <= ord(c) < 127 and c != "\\" for c in s):
        return z3.StringVal(s)
    return z3.StringVal("".join(c if (32 <= ord(c) < 127 and c != "\\") else "\\u{%x}" % ord(c) for c in s))


def _smt(x):
    """-> z3 String expr, or None when x is not string-like."""
    if isinstance(x, Z3Str):
        return x.var
    if isinstance(x, str):
        return _encode_py_string(x)
    if isinstance(x, AnySymbolicStr):
        return _encode_py_string(realize(x))
    return None


def _int_smt(x):
    if isinstance(x, SymbolicInt):
        return x.var
    return z3.IntVal(int(x))


class Z3Str(AnySymbolicStr, CrossHairValue):
    def __init__(self, var):
        self.var = var

    # ---- creation -------------------------------------------------------------------------------------------
    @classmethod
    def fresh(cls, name, maxlen, minlen=0, regex=None):
        with NoTracing():
            space = context_statespace()
            v = z3.String("%s_%s" % (name, space.uniq()))
            space.add(z3.Length(v) <= maxlen)
            if minlen:
                space.add(z3.Length(v) >= minlen)
            if regex is not None:
                space.add(z3.InRe(v, regex))
            return cls(v)

    # ---- crosshair protocol ---------------------------------------------------------------------------------
    def __ch_realize__(self):
        return pin(self, "realize")

    def __ch_pytype__(self):
        return str

    def __hash__(self):
        return hash(pin(self, "hash"))

    def __str__(self):
        return self

    def __repr__(self):
        return repr(pin(self, "repr"))

    def __copy__(self):
        return self

    def __deepcopy__(self, memo):
        return self

    # ---- modelled operations --------------------------------------------------------------------------------
    def __len__(self):
        with NoTracing():
            if z3.is_string_value(self.var):
                return len(_decode_z3_string(self.var))
            return SymbolicInt(z3.Length(self.var))

    def __bool__(self):
        with NoTracing():
            if z3.is_string_value(self.var):
                return len(_decode_z3_string(self.var)) > 0
            b = SymbolicBool(z3.Length(self.var) > 0)
        return b.__bool__()

    def __eq__(self, other):
        with NoTracing():
            o = _smt(other)
            if o is None:
                return False
            return SymbolicBool(self.var == o)

    def __ne__(self, other):
        with NoTracing():
            o = _smt(other)
            if o is None:
                return True
            return SymbolicBool(self.var != o)

    def __lt__(self, other):
        with NoTracing():
            o = _smt(other)
            if o is None:
                raise TypeError("'<' not supported")
            return SymbolicBool(self.var < o)

    def __le__(self, other):
        with NoTracing():
            o = _smt(other)
            if o is None:
                raise TypeError("'<=' not supported")
            return SymbolicBool(self.var <= o)

    def __gt__(self, other):
        with NoTracing():
            o = _smt(other)
            if o is None:
                raise TypeError("'>' not supported")
            return SymbolicBool(o < self.var)

    def __ge__(self, other):
        with NoTracing():
            o = _smt(other)
            if o is None:
                raise TypeError("'>=' not supported")
            return SymbolicBool(o <= self.var)

    def __add__(self, other):
        with NoTracing():
            o = _smt(other)
            if o is None:
                return NotImplemented
            return Z3Str(z3.simplify(z3.Concat(self.var, o)))

    def __radd__(self, other):
        with NoTracing():
            o = _smt(other)
            if o is None:
                return NotImplemented
            return Z3Str(z3.simplify(z3.Concat(o, self.var)))

    def __contains__(self, other):
        with NoTracing():
            o = _smt(other)
            if o is None:
                raise TypeError("'in <string>' requires string as left operand")
            return SymbolicBool(z3.Contains(self.var, o))

    def startswith(self, prefix, start=None, end=None):
        if start is not None or end is not None:
            return self[start:end].startswith(prefix)
        if isinstance(prefix, tuple):
            for p in prefix:
                if self.startswith(p):
                    return True
            return False
        with NoTracing():
            o = _smt(prefix)
            if o is None:
                raise TypeError("startswith first arg must be str")
            return SymbolicBool(z3.PrefixOf(o, self.var))

    def endswith(self, suffix, start=None, end=None):
        if start is not None or end is not None:
            return self[start:end].endswith(suffix)
        if isinstance(suffix, tuple):
            for p in suffix:
                if self.endswith(p):
                    return True
            return False
        with NoTracing():
            o = _smt(suffix)
            if o is None:
                raise TypeError("endswith first arg must be str")
            return SymbolicBool(z3.SuffixOf(o, self.var))

    def find(self, sub, start=None, end=None):
        if start is not None or end is not None:
            return pin(self, "find(start/end)").find(realize(sub), start, end)
        with NoTracing():
            o = _smt(sub)
            return SymbolicInt(z3.IndexOf(self.var, o, 0))

    def __getitem__(self, i):
        with NoTracing():
            n = z3.Length(self.var)

            def idx(x, default):
                if x is None:
                    return default
                x = _int_smt(x)
                return z3.If(x < 0, z3.If(x + n < 0, z3.IntVal(0), x + n), z3.If(x > n, n, x))

            if isinstance(i, slice):
                if i.step in (None, 1):
                    a = idx(i.start, z3.IntVal(0))
                    b = idx(i.stop, n)
                    return Z3Str(z3.simplify(z3.SubString(self.var, a, z3.If(b > a, b - a, 0))))
        return pin(self, "getitem")[realize(i)]

    def cut(self, sep):
        """(head, tail) around the FIRST occurrence of sep via fresh variables; None when sep does not occur."""
        if sep in self:
            with NoTracing():
                space = context_statespace()
                o = _smt(sep)
                h = z3.String("h_%s" % space.uniq())
                t = z3.String("t_%s" % space.uniq())
                space.add(self.var == z3.Concat(h, o, t))
                if z3.is_string_value(o) and len(_decode_z3_string(o)) == 1:
                    space.add(z3.Not(z3.Contains(h, o)))
                else:
                    space.add(z3.IndexOf(self.var, o, 0) == z3.Length(h))
                return Z3Str(h), Z3Str(t)
        return None

    def split(self, sep=None, maxsplit=-1):
        if sep is None:
            return pin(self, "split(None)").split(None, realize(maxsplit))
        if maxsplit == 1:
            c = self.cut(sep)
            return [self] if c is None else [c[0], c[1]]
        if maxsplit == 0:
            return [self]
        out = []
        rest = self
        n = 0
        while maxsplit < 0 or n < maxsplit:
            c = rest.cut(sep) if isinstance(rest, Z3Str) else None
            if c is None:
                break
            out.append(c[0])
            rest = c[1]
            n += 1
        out.append(rest)
        return out

    def partition(self, sep):
        c = self.cut(sep)
        return (self, "", "") if c is None else (c[0], sep, c[1])

    def replace(self, old, new, count=-1):
        with NoTracing():
            o = _smt(old)
            nw = _smt(new)
            if o is None or nw is None:
                raise TypeError("replace arguments must be str")
        if count == 1:
            with NoTracing():
                return Z3Str(z3.Replace(self.var, o, nw))
        if count == 0:
            return self
        if len(old) == 0:
            return pin(self, "replace('')").replace(realize(old), realize(new), count)
        # replace-all: one fork per occurrence, bounded by the length bound of the receiver
        c = self.cut(old)
        if c is None:
            return self
        tail = c[1]
        rest = tail.replace(old, new, count - 1 if count > 0 else -1) if isinstance(tail, Z3Str) else tail
        return c[0] + new + rest

    def matches(self, regex):
        with NoTracing():
            return SymbolicBool(z3.InRe(self.var, regex))

    def isspace(self):
        with NoTracing():
            ws = z3.Plus(z3.Union(*[z3.Re(_encode_py_string(c)) for c in _WS]))
            return SymbolicBool(z3.InRe(self.var, ws))

    def join(self, items):
        items = list(items)
        if not items:
            return ""
        out = items[0]
        if not isinstance(out, (str, AnySymbolicStr)):
            raise TypeError("sequence item 0: expected str instance")
        for it in items[1:]:
            if not isinstance(it, (str, AnySymbolicStr)):
                raise TypeError("sequence item: expected str instance")
            out = out + self + it
        return out

    def __iter__(self):
        return iter(pin(self, "iter"))

    def __mul__(self, n):
        return pin(self, "mul") * realize(n)

    __rmul__ = __mul__

    def __format__(self, spec):
        if spec == "":
            return self
        return format(pin(self, "format"), realize(spec))

    def encode(self, encoding="utf-8", errors="strict"):
        return pin(self, "encode").encode(encoding, errors)


_WS = [chr(c) for c in range(0x110000) if chr(c).isspace() and c < 0x3001]


def _make_fallback(name):
    def method(self, *a, **kw):
        s = pin(self, name)
        a = tuple(realize(x) for x in a)
        kw = {k: realize(v) for k, v in kw.items()}
        with NoTracing():
            return getattr(s, name)(*a, **kw)

    method.__name__ = name
    return method


for _name in dir(str):
    if _name.startswith("_"):
        continue
    if _name in Z3Str.__dict__:
        continue
    setattr(Z3Str, _name, _make_fallback(_name))


def pin(x, where=""):
    """Concretise a symbolic value to a model value WITHOUT creating a decision node (representative witness).

    The equality is asserted on the path condition, so the search tree stays finite; every pin is recorded and the
    verdict of the obligation is degraded from 'for all' to 'one representative per path' (PATH_COMPLETE).
    """
    with NoTracing():
        if isinstance(x, Z3Str):
            if z3.is_string_value(x.var):
                return _decode_z3_string(x.var)
            space = context_statespace()
            x.var = z3.simplify(x.var)
            if z3.is_string_value(x.var):
                return _decode_z3_string(x.var)
            val = stable_values(space, [x.var])[0]
            space.add(x.var == val)
            PINNED.append(("str", where))
            x.var = val
            return _decode_z3_string(val)
        if isinstance(x, (SymbolicInt, SymbolicBool)):
            space = context_statespace()
            v = z3.simplify(x.var)
            if z3.is_int_value(v):
                return v.as_long()
            if z3.is_true(v):
                return True
            if z3.is_false(v):
                return False
            val = stable_values(space, [x.var])[0]
            space.add(x.var == val)
            PINNED.append(("int", where))
            return val.as_long() if z3.is_int_value(val) else z3.is_true(val)
    if isinstance(x, CrossHairValue):
        return realize(x)
    return x


def deep_pin(x, where=""):
    """pin every symbolic leaf of a list/tuple/dict structure."""
    with NoTracing():
        t = type(x)
    if isinstance(x, (Z3Str, SymbolicInt, SymbolicBool)):
        return pin(x, where)
    if t in (list, tuple):
        return t(deep_pin(e, where) for e in x)
    if t is dict:
        return {deep_pin(k, where): deep_pin(v, where) for k, v in x.items()}
    return x
