"""Stage A worker: symbolic exploration of one shard of one obligation on the de-hashed build of /repo/src."""
import importlib
import json
import os
import sys
import time


def main():
    modname, obname, shard_idx, tier, out = sys.argv[1:6]
    seed = int(os.environ.get("VERIF_SEED", "0") or 0)
    from . import dehash

    sys.path.insert(0, os.environ.get("PROV_SRC", "/repo/src"))
    dehash.install()
    from . import symctx, statehygiene  # noqa: F401

    mod = importlib.import_module(modname)
    # import everything prov may import lazily NOW (outside tracing): C-backed / heavy third-party modules must not
    # be imported while CrossHair's tracer is active
    for m in getattr(mod, "PRELOAD", ()) or ("prov.model", "prov.serializers.provjson", "prov.serializers.provn"):
        try:
            importlib.import_module(m)
        except Exception as e:  # noqa
            print("preload failed", m, e)
    statehygiene.install()
    ob = [o for o in mod.OBLIGATIONS if o.name == obname][0]
    params = ob.shards(tier)[int(shard_idx)]
    open_findings = json.loads(os.environ.get("VERIF_OPEN_FINDINGS", "[]"))
    budget = float(os.environ.get("VERIF_BUDGET_S", ob.budget(tier)))
    t0 = time.time()
    res = symctx.explore(
        ob.fn,
        params=dict(params, tier=tier, prop=getattr(mod, "PROPERTY", modname[-3:].upper())),
        open_findings=open_findings,
        budget_s=budget,
        per_path_s=ob.per_path(tier),
        stop_on_refute=ob.stop_on_refute,
        seed=seed,
        traced=getattr(ob, "traced", True),
    )
    res.update(module=modname, obligation=obname, shard=int(shard_idx), params=params, tier=tier,
               encoded_modules=sorted(dehash.LOADED), wall_s=round(time.time() - t0, 3))
    with open(out, "w") as f:
        json.dump(res, f)


if __name__ == "__main__":
    main()
