"""Harness context, shared protocol of Stage A (symbolic) and Stage B (concrete replay).  No CrossHair import here."""


class Refuted(Exception):
    """The harness's assertion failed on this path."""


class ReplayDivergence(Exception):
    """Concrete replay asked for a variable the witness does not contain (path differs from Stage A)."""


class AssumeFailed(Exception):
    """Concrete replay violated an assumption (witness outside the harness's input space)."""


class BaseCtx:
    sym = False

    def __init__(self, params=None, open_findings=()):
        self.params = dict(params or {})
        self.open_findings = set(open_findings)
        self.checks = 0
        self.obs = []
        self.notes = []
        self._names = {}

    def _name(self, base):
        n = self._names.get(base, 0)
        self._names[base] = n + 1
        return base if n == 0 else "%s#%d" % (base, n)

    def observe(self, key, value):
        self.obs.append((key, value))

    def note(self, text):
        self.notes.append(text)

    def fail(self, msg):
        raise Refuted(msg)

    def check(self, cond, msg):
        """The assertion.  In Stage A a symbolic `cond` forks: the solver must show the False side infeasible."""
        self.checks += 1
        if not cond:
            raise Refuted(msg)

    def finding(self, fid, cond):
        """Exclude the region of an OPEN known finding (no-op when the finding is not listed as open)."""
        if fid in self.open_findings:
            self.assume(not cond)


class ConcreteCtx(BaseCtx):
    sym = False

    def __init__(self, witness, params=None, open_findings=()):
        BaseCtx.__init__(self, params, open_findings)
        self.witness = witness

    def _get(self, base):
        name = self._name(base)
        if name not in self.witness:
            raise ReplayDivergence(name)
        return self.witness[name]

    def str(self, name, maxlen, minlen=0, kind=None):
        return self._get(name)

    def slotstr(self, name, n, exclude=()):
        return self._get(name)

    def zstr(self, name, maxlen, minlen=0, kind=None):
        return self._get(name)

    def choose(self, name, n):
        return self._get(name)

    def bool(self, name):
        return bool(self._get(name))

    def bigint(self, name, lo=None, hi=None):
        return self._get(name)

    def assume(self, cond):
        if not cond:
            raise AssumeFailed()

    def pin(self, x, where=""):
        return x

    def deep_pin(self, x, where=""):
        return x

    def pin_all(self, where=""):
        pass

    def cross_check(self, good, label, timeout_s=120):
        return {}
