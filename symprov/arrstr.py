"""ArrStr: bounded symbolic string as a normalised code-point array (z3 Int only; no sequence theory).

value = chars[0 : ln] with 0 <= ln <= cap (cap a Python int).  All operations prov applies to names (==, +, in,
startswith/endswith, slicing, find, split, replace, isspace, <) are quantifier-free linear integer formulas, so each
branch decision is a millisecond LIA query instead of a z3 sequence-theory query (measured: 0.2 s -> 2 ms).
Unsupported methods pin the value (non-forking concretisation, recorded) and delegate to the real str.
"""
import z3
from crosshair.core import realize
from crosshair.libimpl.builtinslib import AnySymbolicStr, SymbolicBool, SymbolicInt
from crosshair.statespace import context_statespace
from crosshair.tracers import NoTracing
from crosshair.util import CrossHairValue

from . import z3str as _z

_WS_POINTS = sorted(c for c in range(0x3001) if chr(c).isspace())


def _simp(e):
    return z3.simplify(e)


_IV = {}
_CONC = {}
SUBST = []  # (variable, value) pairs pinned on the current path; reset by the driver before every path
_MEMO = {}  # (op, ast ids...) -> result; z3 ASTs are hash-consed and variable names repeat on every path


def _memo(tag, key, build):
    k = (tag, key)
    r = _MEMO.get(k)
    if r is None:
        r = build()
        _MEMO[k] = r
    return r


def _wrap(t):
    """(ln, chars) -> ArrStr without re-simplifying"""
    return ArrStr(t[0], t[1])


def _iv(n):
    v = _IV.get(n)
    if v is None:
        v = z3.IntVal(n)
        _IV[n] = v
    return v


def _conc_int(e):
    return e.as_long() if z3.is_int_value(e) else None


def _ite_select(chars, idx, lo=0):
    """chars[idx] for a symbolic idx (out of range -> 0)"""
    i = _conc_int(idx)
    if i is not None:
        return chars[i] if 0 <= i < len(chars) else z3.IntVal(0)
    out = z3.IntVal(0)
    for k in range(len(chars) - 1, -1, -1):
        out = z3.If(idx == k, chars[k], out)
    return out


class ArrStr(AnySymbolicStr, CrossHairValue):
    def __init__(self, ln, chars, simp=False):
        if isinstance(ln, int):
            ln = _iv(ln)
        elif not z3.is_int_value(ln):
            ln = _simp(ln)
        n = _conc_int(ln)
        if n is not None:
            chars = list(chars[:n])
        self.ln = ln
        self.chars = [_simp(c) for c in chars] if simp else list(chars)
        self.cap = len(self.chars)

    @property
    def key(self):
        k = self.__dict__.get("_key")
        if k is None:
            k = (self.ln.get_id(),) + tuple(c.get_id() for c in self.chars)
            self.__dict__["_key"] = k
        return k

    # ---- construction ---------------------------------------------------------------------------------------
    @classmethod
    def from_concrete(cls, s):
        r = _CONC.get(s)
        if r is None:
            r = cls(_iv(len(s)), [_iv(ord(c)) for c in s])
            r._py = s
            if len(_CONC) < 5000:
                _CONC[s] = r
        return r

    @classmethod
    def fresh(cls, name, maxlen, minlen=0, kind=None):
        with NoTracing():
            sp = context_statespace()
            u = sp.uniq()
            ln = z3.Int("%s_len%s" % (name, u))
            sp.add(z3.And(ln >= minlen, ln <= maxlen))
            cs = [z3.Int("%s_c%d%s" % (name, i, u)) for i in range(maxlen)]
            def build():
                cons = [z3.And(c >= 0, c <= 0x10FFFF, z3.Or(c < 0xD800, c > 0xDFFF)) for c in cs]
                cons.extend(kind_constraints(ln, cs, kind, sp, name, u))
                return _simp(z3.And(cons)) if cons else z3.BoolVal(True)

            con = _memo("fresh", (name, u, maxlen, minlen, kind), build)
            if not z3.is_true(con):
                sp.add(con)
            r = cls(ln, cs)
            r.kind = kind
            return r

    def concrete(self):
        """python str if fully concrete (possibly after substituting values pinned on this path) else None"""
        r = self._concrete_now()
        if r is None and SUBST and type(self) is ArrStr:
            ln = _simp(z3.substitute(self.ln, *SUBST))
            n = _conc_int(ln)
            if n is None:
                return None
            chars = [_simp(z3.substitute(c, *SUBST)) for c in self.chars[:n]]
            if any(_conc_int(c) is None for c in chars):
                return None
            self.ln, self.chars, self.cap = ln, chars, len(chars)
            self.__dict__.pop("_key", None)
            return self._concrete_now()
        return r

    def _concrete_now(self):
        n = _conc_int(self.ln)
        if n is None:
            return None
        out = []
        for c in self.chars[:n]:
            v = _conc_int(c)
            if v is None:
                return None
            out.append(chr(v))
        return "".join(out)

    def eval(self, mdl):
        n = mdl.eval(self.ln, model_completion=True).as_long()
        return "".join(chr(mdl.eval(c, model_completion=True).as_long()) for c in self.chars[:n])

    # ---- crosshair protocol ---------------------------------------------------------------------------------
    def __ch_realize__(self):
        return pin(self, "realize")

    def __ch_pytype__(self):
        return str

    def __hash__(self):
        return hash(pin(self, "hash"))

    def __str__(self):
        return self

    def __repr__(self):
        return repr(pin(self, "repr"))

    def __copy__(self):
        return self

    def __deepcopy__(self, memo):
        return self

    # ---- modelled operations --------------------------------------------------------------------------------
    def __len__(self):
        with NoTracing():
            n = _conc_int(self.ln)
            return n if n is not None else SymbolicInt(self.ln)

    def __bool__(self):
        with NoTracing():
            n = _conc_int(self.ln)
            if n is not None:
                return n > 0
            b = SymbolicBool(self.ln > 0)
        return b.__bool__()

    def _eq_expr(self, o):
        return _memo("eq", (self.key, o.key), lambda: self._eq_build(o))

    def _eq_build(self, o):
        la = _conc_int(self.ln)
        lb = _conc_int(o.ln)
        if (la is not None and lb is not None and la != lb) or (lb is not None and lb > self.cap) or (
                la is not None and la > o.cap):
            return z3.BoolVal(False)
        m = min(self.cap, o.cap)
        conj = [self.ln == o.ln]
        if la is None and lb is None:
            conj.append(self.ln <= m)
        for k in range(m):
            if (la is not None and k < la) or (lb is not None and k < lb):
                conj.append(self.chars[k] == o.chars[k])
            elif (la is not None) or (lb is not None):
                break
            else:
                conj.append(z3.Implies(k < self.ln, self.chars[k] == o.chars[k]))
        return _simp(z3.And(conj))

    def __eq__(self, other):
        with NoTracing():
            o = _arr(other)
            if o is None:
                return False
            return _sbool(self._eq_expr(o))

    def __ne__(self, other):
        with NoTracing():
            o = _arr(other)
            if o is None:
                return True
            return _sbool(_simp(z3.Not(self._eq_expr(o))))

    def _lt_expr(self, o, or_equal):
        return _memo("lt", (self.key, o.key, or_equal), lambda: self._lt_build(o, or_equal))

    def _lt_build(self, o, or_equal):
        # lexicographic: exists first differing position k (< both lens) with a[k] < b[k], or a is a proper prefix
        m = min(self.cap, o.cap)
        alts = []
        same = z3.BoolVal(True)
        for k in range(m + 1):
            if k < m:
                both = z3.And(k < self.ln, k < o.ln)
                alts.append(z3.And(same, both, self.chars[k] < o.chars[k]))
            # a ends here, b continues
            alts.append(z3.And(same, self.ln == k, o.ln > k))
            if k < m:
                same = z3.And(same, k < self.ln, k < o.ln, self.chars[k] == o.chars[k])
        e = z3.Or(alts)
        if or_equal:
            e = z3.Or(e, self._eq_expr(o))
        return _simp(e)

    def __lt__(self, other):
        with NoTracing():
            o = _arr(other)
            if o is None:
                raise TypeError("'<' not supported")
            return _sbool(self._lt_expr(o, False))

    def __le__(self, other):
        with NoTracing():
            o = _arr(other)
            if o is None:
                raise TypeError("'<=' not supported")
            return _sbool(self._lt_expr(o, True))

    def __gt__(self, other):
        with NoTracing():
            o = _arr(other)
            if o is None:
                raise TypeError("'>' not supported")
            return _sbool(o._lt_expr(self, False))

    def __ge__(self, other):
        with NoTracing():
            o = _arr(other)
            if o is None:
                raise TypeError("'>=' not supported")
            return _sbool(o._lt_expr(self, True))

    def _concat(self, o):
        return _wrap(_memo("cat", (self.key, o.key), lambda: self._concat_build(o)))

    def _concat_build(self, o):
        r = self._concat_raw(o)
        return (r.ln, r.chars)

    def _concat_raw(self, o):
        la = _conc_int(self.ln)
        if la is not None:
            return ArrStr(self.ln + o.ln, self.chars[:la] + o.chars)
        cap = self.cap + o.cap
        chars = []
        for k in range(cap):
            # position k comes from a when k < la, else from b at k - la
            fromb = z3.IntVal(0)
            for j in range(min(self.cap, k), -1, -1):  # la == j  ->  b[k - j]
                if 0 <= k - j < o.cap:
                    fromb = z3.If(self.ln == j, o.chars[k - j], fromb)
            if k < self.cap:
                chars.append(z3.If(k < self.ln, self.chars[k], fromb))
            else:
                chars.append(fromb)
        return ArrStr(self.ln + o.ln, chars, simp=True)

    def __add__(self, other):
        with NoTracing():
            o = _arr(other)
            if o is None:
                return NotImplemented
            return _out(self._concat(o))

    def __radd__(self, other):
        with NoTracing():
            o = _arr(other)
            if o is None:
                return NotImplemented
            return _out(o._concat(self))

    def _match_at(self, sub, i):
        """sub occurs in self at CONCRETE offset i"""
        conj = [i + sub.ln <= self.ln]
        for k in range(sub.cap):
            if i + k < self.cap:
                conj.append(z3.Implies(k < sub.ln, self.chars[i + k] == sub.chars[k]))
            else:
                conj.append(sub.ln <= k)
        return z3.And(conj)

    def _contains_expr(self, sub):
        return _memo("in", (self.key, sub.key),
                     lambda: _simp(z3.Or([self._match_at(sub, i) for i in range(self.cap + 1)])))

    def _find_expr(self, sub):
        return _memo("find", (self.key, sub.key), lambda: self._find_build(sub))

    def _find_build(self, sub):
        out = z3.IntVal(-1)
        for i in range(self.cap, -1, -1):
            out = z3.If(self._match_at(sub, i), z3.IntVal(i), out)
        return _simp(out)

    def __contains__(self, other):
        with NoTracing():
            o = _arr(other)
            if o is None:
                raise TypeError("'in <string>' requires string as left operand")
            return _sbool(self._contains_expr(o))

    def startswith(self, prefix, start=None, end=None):
        if start is not None or end is not None:
            return self[start:end].startswith(prefix)
        if isinstance(prefix, tuple):
            for p in prefix:
                if self.startswith(p):
                    return True
            return False
        with NoTracing():
            o = _arr(prefix)
            if o is None:
                raise TypeError("startswith first arg must be str")
            return _sbool(_memo('sw', (self.key, o.key), lambda: _simp(self._match_at(o, 0))))

    def endswith(self, suffix, start=None, end=None):
        if start is not None or end is not None:
            return self[start:end].endswith(suffix)
        if isinstance(suffix, tuple):
            for p in suffix:
                if self.endswith(p):
                    return True
            return False
        with NoTracing():
            o = _arr(suffix)
            if o is None:
                raise TypeError("endswith first arg must be str")
            return _sbool(_memo("ew", (self.key, o.key), lambda: _simp(z3.Or(
                [z3.And(self.ln == i + o.ln, self._match_at(o, i)) for i in range(self.cap + 1)]))))

    def find(self, sub, start=None, end=None):
        if start is not None or end is not None:
            return pin(self, "find(start/end)").find(realize(sub), realize(start), realize(end))
        with NoTracing():
            o = _arr(sub)
            e = self._find_expr(o)
            n = _conc_int(e)
            return n if n is not None else SymbolicInt(e)

    def index(self, sub, *a):
        i = self.find(sub, *a)
        if i < 0:
            raise ValueError("substring not found")
        return i

    def _slice(self, a, b):
        return _wrap(_memo("slice", (self.key, a.get_id(), b.get_id()), lambda: self._slice_build(a, b)))

    def _slice_build(self, a, b):
        r = self._slice_raw(a, b)
        return (r.ln, r.chars)

    def _slice_raw(self, a, b):
        """self[a:b] for z3 Int exprs already clamped to 0..ln with a <= b"""
        ln = _simp(b - a)
        ai = _conc_int(_simp(a))
        chars = []
        for k in range(self.cap):
            if ai is not None:
                chars.append(self.chars[ai + k] if ai + k < self.cap else z3.IntVal(0))
            else:
                chars.append(_ite_select(self.chars, _simp(a + k)))
        return ArrStr(ln, chars, simp=(ai is None))

    def __getitem__(self, i):
        with NoTracing():
            n = self.ln

            def clamp(x, default):
                if x is None:
                    return default
                x = _int_smt(x)
                return z3.If(x < 0, z3.If(x + n < 0, z3.IntVal(0), x + n), z3.If(x > n, n, x))

            if isinstance(i, slice):
                if i.step in (None, 1):
                    a = clamp(i.start, z3.IntVal(0))
                    b = clamp(i.stop, n)
                    b = z3.If(b > a, b, a)
                    return _out(self._slice(_simp(a), _simp(b)))
            elif isinstance(i, (int, SymbolicInt)) and not isinstance(i, bool):
                x = _int_smt(i)
                ok = _sbool(_simp(z3.And(x >= -n, x < n)))
                idx = _simp(z3.If(x < 0, x + n, x))
                res = ArrStr(z3.IntVal(1), [_ite_select(self.chars, idx)], simp=True)
                okres = (ok, _out(res))
            else:
                okres = None
        if okres is not None:
            if not okres[0]:
                raise IndexError("string index out of range")
            return okres[1]
        return pin(self, "getitem")[realize(i)]

    def cut(self, sep):
        """(head, tail) around the FIRST occurrence of sep; None when sep does not occur."""
        if sep in self:
            with NoTracing():
                o = _arr(sep)
                idx = self._find_expr(o)
                head = self._slice(z3.IntVal(0), idx)
                tail = self._slice(_simp(idx + o.ln), self.ln)
                return _out(head), _out(tail)
        return None

    def split(self, sep=None, maxsplit=-1):
        if sep is None:
            return pin(self, "split(None)").split(None, realize(maxsplit))
        if len(sep) == 0:
            raise ValueError("empty separator")
        out = []
        rest = self
        n = 0
        while maxsplit < 0 or n < maxsplit:
            c = rest.cut(sep) if isinstance(rest, ArrStr) else _cut_concrete(rest, sep)
            if c is None:
                break
            out.append(c[0])
            rest = c[1]
            n += 1
        out.append(rest)
        return out

    def partition(self, sep):
        c = self.cut(sep)
        return (self, "", "") if c is None else (c[0], sep, c[1])

    def replace(self, old, new, count=-1):
        if count == 0:
            return self
        if len(old) == 0:
            return pin(self, "replace('')").replace(realize(old), realize(new), realize(count))
        c = self.cut(old)
        if c is None:
            return self
        tail = c[1]
        nxt = count - 1 if count > 0 else -1
        if isinstance(tail, ArrStr):
            rest = tail.replace(old, new, nxt)
        else:
            rest = tail.replace(old, new, nxt) if not isinstance(old, ArrStr) and not isinstance(new, ArrStr) \
                else ArrStr.from_concrete(tail).replace(old, new, nxt)
        return c[0] + new + rest

    def isspace(self):
        with NoTracing():
            def ws(c):
                return z3.Or([c == p for p in _WS_POINTS])

            def build():
                conj = [self.ln > 0]
                for k in range(self.cap):
                    conj.append(z3.Implies(k < self.ln, ws(self.chars[k])))
                return _simp(z3.And(conj))

            return _sbool(_memo("isspace", self.key, build))

    def _strip_count(self, chars, from_left):
        """number of leading (trailing) characters that belong to the concrete set `chars`"""
        def in_set(c):
            return z3.Or([c == ord(x) for x in chars]) if chars else z3.BoolVal(False)

        cnt = z3.IntVal(0)
        if from_left:
            pref = z3.BoolVal(True)
            for j in range(self.cap):
                pref = z3.And(pref, j < self.ln, in_set(self.chars[j]))
                cnt = cnt + z3.If(pref, 1, 0)
        else:
            # trailing: position ln-1-j
            pref = z3.BoolVal(True)
            for j in range(self.cap):
                pref = z3.And(pref, j < self.ln, in_set(_ite_select(self.chars, _simp(self.ln - 1 - j))))
                cnt = cnt + z3.If(pref, 1, 0)
        return _simp(cnt)

    def lstrip(self, chars=None):
        if chars is None:
            chars = "".join(chr(p) for p in _WS_POINTS)
        with NoTracing():
            if isinstance(chars, str):
                k = self._strip_count(chars, True)
                return _out(self._slice(k, self.ln))
        return pin(self, "lstrip(symbolic set)").lstrip(realize(chars))

    def rstrip(self, chars=None):
        if chars is None:
            chars = "".join(chr(p) for p in _WS_POINTS)
        with NoTracing():
            if isinstance(chars, str):
                k = self._strip_count(chars, False)
                return _out(self._slice(z3.IntVal(0), _simp(self.ln - k)))
        return pin(self, "rstrip(symbolic set)").rstrip(realize(chars))

    def strip(self, chars=None):
        r = self.lstrip(chars)
        return r.rstrip(chars)

    def isascii(self):
        with NoTracing():
            return _sbool(self._is_ascii_expr())

    def isalpha(self):
        with NoTracing():
            asc = _sbool(self._is_ascii_expr())
        if asc:
            with NoTracing():
                conj = [self.ln > 0]
                for k in range(self.cap):
                    c = self.chars[k]
                    conj.append(z3.Implies(k < self.ln, z3.Or(z3.And(c >= 65, c <= 90), z3.And(c >= 97, c <= 122))))
                return _sbool(_simp(z3.And(conj)))
        return pin(self, "isalpha(non-ascii)").isalpha()

    def rfind(self, sub, start=None, end=None):
        if start is not None or end is not None:
            return pin(self, "rfind(start/end)").rfind(realize(sub), realize(start), realize(end))
        with NoTracing():
            o = _arr(sub)
            out = z3.IntVal(-1)
            for i in range(self.cap + 1):
                out = z3.If(self._match_at(o, i), z3.IntVal(i), out)
            e = _simp(out)
            n = _conc_int(e)
            return n if n is not None else SymbolicInt(e)

    def _is_ascii_expr(self):
        return _simp(z3.And([z3.Implies(k < self.ln, self.chars[k] < 128) for k in range(self.cap)]))

    def lower(self):
        with NoTracing():
            asc = _sbool(self._is_ascii_expr())
        if asc:
            with NoTracing():
                return _out(ArrStr(self.ln, [z3.If(z3.And(c >= 65, c <= 90), c + 32, c) for c in self.chars], simp=True))
        return pin(self, "lower(non-ascii)").lower()

    def upper(self):
        with NoTracing():
            asc = _sbool(self._is_ascii_expr())
        if asc:
            with NoTracing():
                return _out(ArrStr(self.ln, [z3.If(z3.And(c >= 97, c <= 122), c - 32, c) for c in self.chars], simp=True))
        return pin(self, "upper(non-ascii)").upper()

    def join(self, items):
        items = list(items)
        if not items:
            return ""
        out = items[0]
        if not isinstance(out, (str, AnySymbolicStr)):
            raise TypeError("sequence item 0: expected str instance")
        for it in items[1:]:
            if not isinstance(it, (str, AnySymbolicStr)):
                raise TypeError("sequence item: expected str instance")
            out = out + self + it
        return out

    def __iter__(self):
        n = fork_len(self)
        return iter([self[k] for k in range(n)])

    def __mul__(self, n):
        return pin(self, "mul") * realize(n)

    __rmul__ = __mul__

    def __format__(self, spec):
        if spec == "":
            return self
        return format(pin(self, "format"), realize(spec))

    def encode(self, encoding="utf-8", errors="strict"):
        return pin(self, "encode").encode(encoding, errors)

    def char_in(self, k, lo, hi):
        """z3 Bool helper for harness-side constraints"""
        return z3.And(self.chars[k] >= lo, self.chars[k] <= hi)


class IntStr(ArrStr):
    """str(n) of a symbolic int: a tagged string.  int() of it is n again (contract stub int(str(n)) == n); any
    other inspection materialises it by pinning n (non-forking, recorded as a concretisation)."""

    def __init__(self, nvar):
        self.__dict__["_n"] = nvar
        self.__dict__["_mat"] = None

    def _materialise(self):
        m = self.__dict__["_mat"]
        if m is None:
            with NoTracing():
                v = _z.pin(SymbolicInt(self.__dict__["_n"]), "str(int) inspected")
                m = ArrStr.from_concrete(str(v))
                self.__dict__["_mat"] = m
        return m

    ln = property(lambda self: self._materialise().ln)
    chars = property(lambda self: self._materialise().chars)
    cap = property(lambda self: self._materialise().cap)

    def eval(self, mdl):
        return str(mdl.eval(self.__dict__["_n"], model_completion=True).as_long())

    def int_value(self):
        return SymbolicInt(self.__dict__["_n"])


def _cut_concrete(s, sep):
    if isinstance(sep, ArrStr):
        return ArrStr.from_concrete(s).cut(sep)
    i = s.find(sep)
    return None if i < 0 else (s[:i], s[i + len(sep):])


def _int_smt(x):
    if isinstance(x, SymbolicInt):
        return x.var
    return z3.IntVal(int(x))


def _sbool(e):
    if z3.is_true(e):
        return True
    if z3.is_false(e):
        return False
    return SymbolicBool(e)


def _out(a):
    """collapse fully concrete results to a real str"""
    c = a.concrete()
    return c if c is not None else a


def _arr(x):
    if isinstance(x, ArrStr):
        if SUBST:
            x.concrete()
        return x
    if isinstance(x, str):
        return ArrStr.from_concrete(x)
    if isinstance(x, _z.Z3Str):
        return ArrStr.from_concrete(_z.pin(x, "mix z3str/arrstr"))
    if isinstance(x, AnySymbolicStr):
        return ArrStr.from_concrete(realize(x))
    return None


def _make_fallback(name):
    def method(self, *a, **kw):
        s = pin(self, name)
        a = tuple(realize(x) for x in a)
        kw = {k: realize(v) for k, v in kw.items()}
        with NoTracing():
            return getattr(s, name)(*a, **kw)

    method.__name__ = name
    return method


for _name in dir(str):
    if _name.startswith("_") or _name in ArrStr.__dict__:
        continue
    setattr(ArrStr, _name, _make_fallback(_name))


def fork_len(x):
    """the length as a concrete int, one branch per feasible length (bounded by the capacity)"""
    with NoTracing():
        n = _conc_int(x.ln)
        if n is not None:
            return n
        space = context_statespace()
        for k in range(x.cap):
            if space.smt_fork(x.ln == k, desc="len"):
                return k
        return x.cap


def pin_len(x):
    with NoTracing():
        n = _conc_int(x.ln)
        if n is not None:
            return n
        space = context_statespace()
        val = _z.stable_values(space, [x.ln])[0]
        space.add(x.ln == val)
        _z.PINNED.append(("len", "iter"))
        x.ln = val
        x.chars = x.chars[: val.as_long()]
        x.cap = len(x.chars)
        x.__dict__.pop('_key', None)
        return val.as_long()


def pin(x, where=""):
    if isinstance(x, IntStr):
        return x._materialise().concrete()
    with NoTracing():
        if isinstance(x, ArrStr):
            c = x.concrete()
            if c is not None:
                return c
            space = context_statespace()
            vals = _z.stable_values(space, [x.ln] + list(x.chars))
            n = vals[0]
            if not z3.is_int_value(x.ln):
                space.add(x.ln == n)
                if z3.is_const(x.ln):
                    SUBST.append((x.ln, n))
            out = []
            for c, v in zip(x.chars[: n.as_long()], vals[1:]):
                if not z3.is_int_value(c):
                    space.add(c == v)
                    if z3.is_const(c):
                        SUBST.append((c, v))
                out.append(v)
            _z.PINNED.append(("str", where))
            x.ln = n
            x.chars = out
            x.cap = len(out)
            x.__dict__.pop('_key', None)
            return "".join(chr(v.as_long()) for v in out)
    return _z.pin(x, where)


def deep_pin(x, where=""):
    with NoTracing():
        t = type(x)
    if isinstance(x, (ArrStr, _z.Z3Str, SymbolicInt, SymbolicBool)):
        return pin(x, where)
    if t in (list, tuple):
        return t(deep_pin(e, where) for e in x)
    if t is dict:
        return {deep_pin(k, where): deep_pin(v, where) for k, v in x.items()}
    return x


# ---- validity predicates asserted at creation -----------------------------------------------------------------

def _in_ranges(c, ranges):
    return z3.Or([z3.And(c >= a, c <= b) if a != b else c == a for a, b in ranges])


_ALPHA = [(65, 90), (97, 122)]
_ALNUM_ = _ALPHA + [(48, 57), (95, 95)]
_SCHEME = _ALPHA + [(48, 57), (43, 43), (45, 46)]


def kind_constraints(ln, cs, kind, sp, name, u):
    out = []
    n = len(cs)
    if kind is None or kind == "any":
        return out
    if kind == "prefix":  # superset of PN_PREFIX: no ':' and not starting with '_'
        for k in range(n):
            out.append(z3.Implies(k < ln, cs[k] != 58))
        if n:
            out.append(z3.Implies(ln > 0, cs[0] != 95))
    elif kind == "local":
        for k in range(n):
            out.append(z3.Implies(k < ln, cs[k] != 58))
    elif kind == "uri":  # absolute IRI shape: ALPHA scheme-chars* ':' (printable ASCII, no space)*
        colon = z3.Int("%s_colon%s" % (name, u))
        out.append(z3.And(colon >= 1, colon < ln))
        out.append(_in_ranges(cs[0], _ALPHA))
        for k in range(n):
            out.append(z3.Implies(z3.And(k < colon), _in_ranges(cs[k], _SCHEME)))
            out.append(z3.Implies(k == colon, cs[k] == 58))
            # IRI characters: printable ASCII without space and without < > " { } | ^ ` \\ [ ]
            out.append(z3.Implies(z3.And(k > colon, k < ln), z3.And(cs[k] >= 33, cs[k] <= 126, cs[k] != 60, cs[k] != 62,
                                                                    cs[k] != 34, cs[k] != 123, cs[k] != 125, cs[k] != 124,
                                                                    cs[k] != 94, cs[k] != 96, cs[k] != 92, cs[k] != 91, cs[k] != 93)))
    elif kind == "name":  # [A-Za-z][A-Za-z0-9_]*
        if n:
            out.append(z3.Implies(ln > 0, _in_ranges(cs[0], _ALPHA)))
        for k in range(1, n):
            out.append(z3.Implies(k < ln, _in_ranges(cs[k], _ALNUM_)))
    elif kind == "ascii":
        for k in range(n):
            out.append(z3.Implies(k < ln, z3.And(cs[k] >= 32, cs[k] <= 126)))
    elif kind == "text":  # XML 1.0 Char without CR; BMP + astral, no surrogates (already excluded), no FFFE/FFFF
        for k in range(n):
            out.append(z3.Implies(k < ln, z3.Or(cs[k] == 9, cs[k] == 10, z3.And(cs[k] >= 32, cs[k] <= 0xD7FF),
                                                z3.And(cs[k] >= 0xE000, cs[k] <= 0xFFFD),
                                                z3.And(cs[k] >= 0x10000, cs[k] <= 0x10FFFF))))
    else:
        raise ValueError(kind)
    return out
