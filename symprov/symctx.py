"""Stage A: symbolic context + path-exploration driver on top of CrossHair's search tree."""
import time
import traceback

import z3
from crosshair.core_and_libs import standalone_statespace  # noqa: F401  (registers library patches)
from crosshair.core import Patched
from crosshair.condition_parser import condition_parser
from crosshair.options import DEFAULT_OPTIONS
from crosshair.statespace import (
    CallAnalysis,
    RootNode,
    StateSpace,
    StateSpaceContext,
    VerificationStatus,
    context_statespace,
)
from crosshair import statespace as _ss
from crosshair.libimpl.builtinslib import SymbolicBool, SymbolicInt
from crosshair.tracers import COMPOSITE_TRACER, NoTracing, ResumedTracing
from crosshair.util import IgnoreAttempt, NotDeterministic, UnexploredPath, CrossHairInternal

from . import patches, z3str, arrstr
from .arrstr import ArrStr
from .ctx import BaseCtx, Refuted
from .z3str import Z3Str, _decode_z3_string

QSTATS = {"queries": 0, "solver_s": 0.0}
_orig_sat = _ss.solver_is_sat


def _timed_sat(solver, *a):
    t = time.perf_counter()
    try:
        return _orig_sat(solver, *a)
    finally:
        QSTATS["queries"] += 1
        QSTATS["solver_s"] += time.perf_counter() - t


_ss.solver_is_sat = _timed_sat


def _re_range(a, b):
    return z3.Range(a, b)


def _alpha():
    return z3.Union(_re_range("a", "z"), _re_range("A", "Z"))


def _alnum_():
    return z3.Union(_alpha(), _re_range("0", "9"), z3.Re("_"))


def kind_constraints(v, kind):
    """Validity predicates asserted on the solver when the variable is created (never as branches)."""
    cs = []
    if kind is None or kind == "any":
        return cs
    if kind == "prefix":  # superset of PN_PREFIX: no ':' and not starting with '_'
        cs.append(z3.Not(z3.Contains(v, z3.StringVal(":"))))
        cs.append(z3.Not(z3.PrefixOf(z3.StringVal("_"), v)))
    elif kind == "local":  # non-empty local part without ':'
        cs.append(z3.Not(z3.Contains(v, z3.StringVal(":"))))
    elif kind == "uri":  # absolute IRI shape: scheme ":" rest, no whitespace / control characters
        scheme = z3.Concat(_alpha(), z3.Star(z3.Union(_alnum_(), z3.Re("+"), z3.Re("-"), z3.Re("."))))
        rest = z3.Star(z3.Union(_re_range("!", "~")))
        cs.append(z3.InRe(v, z3.Concat(scheme, z3.Re(":"), rest)))
    elif kind == "name":  # identifier-safe alphabet (NCName / PROV-N PN_LOCAL without escapes)
        cs.append(z3.InRe(v, z3.Concat(_alpha(), z3.Star(_alnum_()))))
    elif kind == "ascii":  # printable ASCII
        cs.append(z3.InRe(v, z3.Star(_re_range(" ", "~"))))
    elif kind == "text":  # any XML-1.0 / JSON-safe BMP text without surrogates and CR
        ok = z3.Union(z3.Re("\\u{9}"), z3.Re("\\u{a}"), _re_range(" ", "\\u{d7ff}"), _re_range("\\u{e000}", "\\u{fffd}"))
        cs.append(z3.InRe(v, z3.Star(ok)))
    elif kind == "nosurrogate":
        ok = z3.Union(_re_range("\\u{0}", "\\u{d7ff}"), _re_range("\\u{e000}", "\\u{ffff}"))
        cs.append(z3.InRe(v, z3.Star(ok)))
    else:
        raise ValueError(kind)
    return cs


class SymCtx(BaseCtx):
    sym = True

    def __init__(self, params=None, open_findings=()):
        BaseCtx.__init__(self, params, open_findings)
        self.named = {}  # name -> (kind, z3 expr | SlotStr)

    # -- fresh variables ------------------------------------------------------------------------------------
    def str(self, name, maxlen, minlen=0, kind=None):
        name = self._name(name)
        s = ArrStr.fresh(name.replace("#", "_"), maxlen, minlen, kind)
        with NoTracing():
            self.named[name] = ("arr", s)
        return s

    def zstr(self, name, maxlen, minlen=0, kind=None):
        name = self._name(name)
        with NoTracing():
            space = context_statespace()
            v = z3.String("%s_%s" % (name.replace("#", "_"), space.uniq()))
            space.add(z3.Length(v) <= maxlen)
            if minlen:
                space.add(z3.Length(v) >= minlen)
            for c in kind_constraints(v, kind):
                space.add(c)
            self.named[name] = ("str", v)
            return Z3Str(v)

    def slotstr(self, name, n, exclude=()):
        from .slotstr import SlotStr

        name = self._name(name)
        s = SlotStr.fresh(name.replace("#", "_"), n)
        with NoTracing():
            space = context_statespace()
            for c in s.chars:
                for ex in exclude:
                    space.add(c != ord(ex))
            self.named[name] = ("slot", s)
        return s

    def choose(self, name, n):
        """A finite choice in range(n), returned as a CONCRETE int (one branch per value)."""
        name = self._name(name)
        if n <= 1:
            with NoTracing():
                self.named[name] = ("const", 0)
            return 0
        with NoTracing():
            space = context_statespace()
            v = z3.Int("%s_%s" % (name.replace("#", "_"), space.uniq()))
            space.add(z3.And(v >= 0, v < n))
            self.named[name] = ("int", v)
            for i in range(n - 1):
                if space.smt_fork(v == i, desc="choose"):
                    return i
            return n - 1

    def bool(self, name):
        return self.choose(name, 2) == 1

    def bigint(self, name, lo=None, hi=None):
        name = self._name(name)
        with NoTracing():
            space = context_statespace()
            v = z3.Int("%s_%s" % (name.replace("#", "_"), space.uniq()))
            if lo is not None:
                space.add(v >= lo)
            if hi is not None:
                space.add(v <= hi)
            self.named[name] = ("int", v)
            return SymbolicInt(v)

    def assume(self, cond):
        if not cond:
            raise IgnoreAttempt("assume")

    def pin(self, x, where=""):
        return arrstr.pin(x, where)

    def deep_pin(self, x, where=""):
        return arrstr.deep_pin(x, where)

    def cross_check(self, good, label, timeout_s=120):
        """Re-decide 'path condition AND NOT good' with the z3 4.8.12 and cvc5 1.0.3 binaries (second opinions on the
        LIA encoding of a kernel).  The outcome is recorded as a note in evidence; 'sat' from either is a disagreement
        with an in-process 'unsat' and is reported by the harness as inconclusive."""
        import os
        import subprocess
        import tempfile

        with NoTracing():
            space = context_statespace()
            s2 = z3.Solver()
            for a in space.solver.assertions():
                s2.add(a)
            s2.add(z3.Not(good.var if hasattr(good, "var") else good))
            text = "(set-logic ALL)\n" + s2.to_smt2()
            fd, path = tempfile.mkstemp(suffix=".smt2")
            out = {}
            try:
                with os.fdopen(fd, "w") as f:
                    f.write(text)
                for name, cmd in (("z3-4.8.12", ["/usr/bin/z3", "-T:%d" % timeout_s, path]),
                                  ("cvc5-1.0.3", ["cvc5", "--tlimit=%d" % (timeout_s * 1000), path])):
                    try:
                        r = subprocess.run(cmd, capture_output=True, text=True, timeout=timeout_s + 30)
                        txt = (r.stdout + r.stderr).strip().splitlines()
                        ans = [l for l in txt if l in ("sat", "unsat", "unknown")]
                        out[name] = "error" if any("(error" in l for l in txt) else (ans[0] if ans else "timeout")
                    except Exception as e:  # noqa
                        out[name] = "unavailable"
            finally:
                os.remove(path)
            self.notes.append("xcheck %s: %s" % (label, ", ".join("%s=%s" % kv for kv in sorted(out.items()))))
            return out

    def pin_all(self, where="pin_all"):
        """concretise every named symbolic variable of this path (non-forking): from here on the path is a
        representative concrete run (PATH_COMPLETE)"""
        with NoTracing():
            for name, (k, v) in list(self.named.items()):
                if k == "arr":
                    arrstr.pin(v, where)
                elif k == "int":
                    z3str.pin(SymbolicInt(v), where)

    # -- model evaluation -----------------------------------------------------------------------------------
    def model(self):
        with NoTracing():
            space = context_statespace()
            r = space.solver.check()
            if r != z3.sat:
                return None
            return space.solver.model()

    def witness(self, mdl):
        out = {}
        for name, (k, v) in self.named.items():
            if k == "const":
                out[name] = v
            elif k == "str":
                out[name] = _decode_z3_string(mdl.eval(v, model_completion=True))
            elif k == "int":
                out[name] = mdl.eval(v, model_completion=True).as_long()
            elif k in ("slot", "arr"):
                out[name] = v.eval(mdl)
        return out


def evaluate(x, mdl):
    """Evaluate a structure with symbolic leaves under a model -> plain JSON-able structure."""
    from .slotstr import SlotStr

    if isinstance(x, Z3Str):
        return _decode_z3_string(mdl.eval(x.var, model_completion=True))
    if isinstance(x, (SlotStr, ArrStr)):
        return x.eval(mdl)
    if isinstance(x, SymbolicInt):
        return mdl.eval(x.var, model_completion=True).as_long()
    if isinstance(x, SymbolicBool):
        return z3.is_true(mdl.eval(x.var, model_completion=True))
    if x is None or type(x) in (str, int, bool, float):
        return x
    if isinstance(x, (list, tuple)):
        return [evaluate(e, mdl) for e in x]
    if isinstance(x, dict):
        return {str(evaluate(k, mdl)): evaluate(v, mdl) for k, v in x.items()}
    if hasattr(x, "_k") and hasattr(x, "_v"):
        return {str(evaluate(k, mdl)): evaluate(v, mdl) for k, v in zip(x._k, x._v)}
    if hasattr(x, "_e"):
        return [evaluate(e, mdl) for e in x._e]
    return repr(x)


_RESET_HOOKS = []


def add_reset_hook(fn):
    _RESET_HOOKS.append(fn)


def explore(harness, params=None, open_findings=(), budget_s=300.0, per_path_s=30.0, stop_on_refute=True,
            max_paths=None, seed=0, traced=True):
    """Explore every feasible path of `harness(ctx)`; return verdict + per-path records (with witnesses)."""
    patches.install()
    root = RootNode()
    try:
        root._random.seed(seed)
    except Exception:
        pass
    paths = []
    t0 = time.time()
    exhausted = False
    verdict = None
    q0 = dict(QSTATS)
    with condition_parser(DEFAULT_OPTIONS.analysis_kind), Patched():
        i = 0
        while time.time() - t0 < budget_s and (max_paths is None or i < max_paths):
            i += 1
            for h in _RESET_HOOKS:
                h()
            del z3str.PINNED[:]
            z3str.PIN_COUNT[0] = 0
            del arrstr.SUBST[:]
            start = time.process_time()
            space = StateSpace(
                execution_deadline=start + per_path_s, model_check_timeout=per_path_s / 2, search_root=root
            )
            ctx = SymCtx(params, open_findings)
            rec = {"n": i}
            try:
                with StateSpaceContext(space), COMPOSITE_TRACER, NoTracing():
                    try:
                        msg = None
                        try:
                            if traced:
                                with ResumedTracing():
                                    harness(ctx)
                            else:
                                harness(ctx)
                        except Refuted as e:
                            msg = str(e.args[0]) if e.args else "refuted"
                        except (UnexploredPath, IgnoreAttempt, NotDeterministic, CrossHairInternal):
                            raise
                        except Exception as e:  # unexpected exception inside the harness/prov = assertion failure
                            msg = "unexpected %s: %s" % (type(e).__name__, _safe_str(e))
                            rec["tb"] = traceback.format_exc(limit=-6)
                        mdl = ctx.model()
                        if mdl is None:
                            rec["status"] = "UNKNOWN"
                            rec["why"] = "no model at path end"
                            analysis = CallAnalysis(VerificationStatus.UNKNOWN)
                        else:
                            rec["witness"] = ctx.witness(mdl)
                            rec["obs"] = evaluate(ctx.obs, mdl)
                            rec["checks"] = ctx.checks
                            rec["pins"] = sorted(set(w for _, w in z3str.PINNED))
                            rec["notes"] = list(ctx.notes)
                            if msg is not None:
                                rec["status"] = "REFUTED"
                                rec["msg"] = msg
                                analysis = CallAnalysis(VerificationStatus.REFUTED)
                            else:
                                rec["status"] = "CONFIRMED"
                                analysis = CallAnalysis(VerificationStatus.CONFIRMED)
                    except UnexploredPath as e:
                        rec["status"] = "UNKNOWN"
                        rec["why"] = type(e).__name__
                        analysis = CallAnalysis(VerificationStatus.UNKNOWN)
                    except IgnoreAttempt:
                        rec["status"] = "IGNORED"
                        analysis = CallAnalysis()
                    except RuntimeError as e:
                        if "pin on infeasible" in str(e):
                            rec["status"] = "UNKNOWN"
                            rec["why"] = "pin: solver unknown"
                            analysis = CallAnalysis(VerificationStatus.UNKNOWN)
                        else:
                            raise
            except NotDeterministic as e:
                rec["status"] = "NONDET"
                rec["why"] = _safe_str(e)[:300]
                analysis = CallAnalysis(VerificationStatus.UNKNOWN)
            rec["decisions"] = len(space.choices_made)
            top, exhausted = space.bubble_status(analysis)
            paths.append(rec)
            if rec["status"] == "REFUTED" and stop_on_refute:
                verdict = "REFUTED"
                break
            if exhausted:
                break
    counts = {}
    for p in paths:
        counts[p["status"]] = counts.get(p["status"], 0) + 1
    if verdict is None:
        if counts.get("REFUTED"):
            verdict = "REFUTED"
        elif not exhausted:
            verdict = "INCONCLUSIVE"
        elif counts.get("UNKNOWN") or counts.get("NONDET"):
            verdict = "INCONCLUSIVE"
        elif any(p.get("pins") for p in paths if p["status"] == "CONFIRMED"):
            verdict = "PATH_COMPLETE"
        else:
            verdict = "PROVED_IN_BOUNDS"
    return {
        "verdict": verdict,
        "exhausted": bool(exhausted),
        "counts": counts,
        "paths": paths,
        "wall_s": round(time.time() - t0, 3),
        "queries": QSTATS["queries"] - q0["queries"],
        "solver_s": round(QSTATS["solver_s"] - q0["solver_s"], 3),
    }


def _safe_str(e):
    try:
        with NoTracing():
            return str(e)
    except BaseException:
        return "<unprintable>"


def _fast_solver():
    """Incremental SMT core instead of CrossHair's tactic solver (non-incremental: ~10 ms per branch query)."""
    s = z3.SimpleSolver()
    s.set("random_seed", 42)
    return s


import os as _os

if _os.environ.get("SYMPROV_SOLVER", "simple") == "simple":
    _ss.make_default_solver = _fast_solver
