"""Stage B worker: replay Stage A's per-path witnesses on the UNMODIFIED build (plain import of /repo/src)."""
import importlib
import json
import os
import sys
import time
import traceback


def canon(x):
    """JSON-normalise (tuples -> lists, dict keys -> str) so Stage A and Stage B digests are comparable."""
    if isinstance(x, (list, tuple)):
        return [canon(e) for e in x]
    if isinstance(x, dict):
        return {str(k): canon(v) for k, v in x.items()}
    if isinstance(x, (set, frozenset)):
        return sorted((canon(e) for e in x), key=repr)
    if x is None or isinstance(x, (str, int, float, bool)):
        return x
    return repr(x)


def _sort_deep(x):
    import json as _json

    if isinstance(x, list):
        return sorted((_sort_deep(e) for e in x), key=lambda e: _json.dumps(e, sort_keys=True, default=repr))
    if isinstance(x, dict):
        return {k: _sort_deep(v) for k, v in x.items()}
    return x


def norm_obs(obs):
    """observations whose key ends with '~' are compared order-insensitively (set iteration order is not modelled)"""
    out = []
    for kv in canon(obs or []):
        if isinstance(kv, list) and len(kv) == 2 and isinstance(kv[0], str) and kv[0].endswith("~"):
            out.append([kv[0], _sort_deep(kv[1])])
        else:
            out.append(kv)
    return out


def replay(fn, witness, params, open_findings=()):
    from .ctx import AssumeFailed, ConcreteCtx, Refuted, ReplayDivergence

    ctx = ConcreteCtx(witness, params, open_findings)
    out = {}
    try:
        fn(ctx)
        out["status"] = "CONFIRMED"
    except Refuted as e:
        out["status"] = "REFUTED"
        out["msg"] = str(e.args[0]) if e.args else "refuted"
    except ReplayDivergence as e:
        out["status"] = "DIVERGED"
        out["msg"] = "missing witness variable %s" % e
    except AssumeFailed:
        out["status"] = "ASSUME_FAILED"
    except Exception as e:
        out["status"] = "REFUTED"
        out["msg"] = "unexpected %s: %s" % (type(e).__name__, e)
        out["tb"] = traceback.format_exc(limit=-6)
    out["obs"] = norm_obs(ctx.obs)
    out["checks"] = ctx.checks
    out["notes"] = list(ctx.notes)
    return out


def main():
    infile, outfile = sys.argv[1:3]
    sys.path.insert(0, os.environ.get("PROV_SRC", "/repo/src"))
    with open(infile) as f:
        res = json.load(f)
    mod = importlib.import_module(res["module"])
    ob = [o for o in mod.OBLIGATIONS if o.name == res["obligation"]][0]
    open_findings = json.loads(os.environ.get("VERIF_OPEN_FINDINGS", "[]"))
    params = dict(res["params"], tier=res["tier"], prop=getattr(mod, "PROPERTY", res["module"][-3:].upper()))
    t0 = time.time()
    out = []
    for p in res["paths"]:
        if "witness" not in p:
            out.append(None)
            continue
        r = replay(ob.fn, p["witness"], params, open_findings)
        r["n"] = p["n"]
        r["obs_equal"] = norm_obs(p.get("obs")) == r["obs"]
        if not r["obs_equal"]:
            r["obs_a"] = norm_obs(p.get("obs"))
        else:
            r.pop("obs", None)
        out.append(r)
    with open(outfile, "w") as f:
        json.dump({"replays": out, "wall_s": round(time.time() - t0, 3)}, f)


if __name__ == "__main__":
    main()
