"""Obligation descriptor shared by harness modules, workers and the orchestrator."""


class Obligation:
    def __init__(self, name, fn, shards, desc, bounds, assumptions=(), functions=(), shims=(),
                 budget_s=(120, 900), per_path_s=(20, 60), best_verdict="PROVED_IN_BOUNDS", stop_on_refute=True, traced=True):
        self.name = name
        self.fn = fn
        self._shards = shards  # callable(tier) -> list of params dicts, or a list
        self.desc = desc
        self.bounds = bounds  # dict tier -> description dict/str, or plain dict
        self.assumptions = list(assumptions)
        self.functions = list(functions)
        self.shims = list(shims)
        self.budget_s = budget_s
        self.per_path_s = per_path_s
        self.best_verdict = best_verdict
        self.stop_on_refute = stop_on_refute
        self.traced = traced  # False: the harness only makes finite choices (no symbolic values): run it without the tracer

    def shards(self, tier):
        s = self._shards(tier) if callable(self._shards) else self._shards
        return list(s)

    def budget(self, tier):
        return self.budget_s[0 if tier == "quick" else 1]

    def per_path(self, tier):
        return self.per_path_s[0 if tier == "quick" else 1]

    def bounds_for(self, tier):
        b = self.bounds
        if isinstance(b, dict) and tier in b:
            return b[tier]
        return b
