"""symprov: solver-based checking of trungdong/prov (see /verif/DESIGN.md)."""
