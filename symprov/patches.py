"""Replacement CrossHair patches that keep prov's string building symbolic.

* str.__mod__ : CrossHair deep-realises the arguments; prov builds almost all text with %-formatting.
* format()    : CrossHair deep-realises any non-str object, which concretises every f'"{record.identifier}"'.
* str.startswith/endswith/__contains__/replace/split/find/partition on a CONCRETE receiver with a Z3Str/SlotStr
  argument are redirected to the symbolic class instead of CrossHair's per-character model.
"""
import re as _re

from crosshair import core as _core
from crosshair.core import deep_realize, realize
from crosshair.libimpl import builtinslib as _bl
from crosshair.libimpl.builtinslib import AnySymbolicStr
from crosshair.tracers import NoTracing
from crosshair.util import CrossHairValue

from .z3str import Z3Str, _encode_py_string

_DIRECTIVE = _re.compile(r"%(?:(%)|([sdig]))")


def _orig_percent(self, other):
    other = deep_realize(other)
    self = realize(self)
    with NoTracing():
        return self % other


def _percent(self, other):
    with NoTracing():
        simple = type(self) is str
    if not simple:
        return _orig_percent(self, other)
    args = other if isinstance(other, tuple) else (other,)
    pieces = []
    pos = 0
    ai = 0
    for mt in _DIRECTIVE.finditer(self):
        pieces.append(self[pos : mt.start()])
        pos = mt.end()
        if mt.group(1):
            pieces.append("%")
            continue
        if ai >= len(args):
            raise TypeError("not enough arguments for format string")
        a = args[ai]
        ai += 1
        conv = mt.group(2)
        if conv == "s":
            pieces.append(a if isinstance(a, (str, AnySymbolicStr)) else str(a))
        elif conv in "di" and isinstance(a, int) and not isinstance(a, bool):
            pieces.append(str(a))
        else:
            ra = realize(a)
            with NoTracing():
                pieces.append(("%" + conv) % ra)
    if "%" in self[pos:]:
        return _orig_percent(self, other)  # unsupported directive: fall back (realises)
    pieces.append(self[pos:])
    if ai != len(args):
        raise TypeError("not all arguments converted during string formatting")
    out = ""
    for p in pieces:
        out = out + p
    return out


def _format(obj, format_spec=""):
    with NoTracing():
        if isinstance(format_spec, AnySymbolicStr):
            format_spec = realize(format_spec)
        if format_spec in ("", "s") and isinstance(obj, AnySymbolicStr):
            return obj
        plain = (
            format_spec == ""
            and not isinstance(obj, (CrossHairValue, str, int, float))
            and type(obj).__format__ is object.__format__
        )
    if plain:
        return _bl._str(obj)
    obj = deep_realize(obj)
    return format(obj, format_spec)  # called from this frame: dispatches to the native builtin


def _has_sym(x):
    if isinstance(x, CrossHairValue) and isinstance(x, AnySymbolicStr) and type(x).__name__ in ("Z3Str", "SlotStr", "ArrStr"):
        return True
    if type(x) is tuple:
        return any(_has_sym(y) for y in x)
    return False


def _wrap_str_method(name):
    meth = getattr(str, name)

    def patched(self, *a, **kw):
        with NoTracing():
            sym_self = isinstance(self, AnySymbolicStr)
            redirect = type(self) is str and any(_has_sym(x) for x in a)
            cls = None
            if redirect:
                for x in a:
                    xs = x if type(x) is tuple else (x,)
                    for y in xs:
                        if _has_sym(y):
                            cls = type(y)
                            break
                    if cls:
                        break
        if sym_self:
            return getattr(self, name)(*a, **kw)
        if redirect:
            recv = cls.from_concrete(self)
            return getattr(recv, name)(*a, **kw)
        ra = tuple(deep_realize(x) for x in a)
        rk = {k: deep_realize(v) for k, v in kw.items()}
        return meth(self, *ra, **rk)  # called from this frame: dispatches to the native method

    patched.__name__ = "_symprov_" + name
    return meth, patched


def _str_patch(*a):
    with NoTracing():
        one = len(a) == 1
        if one:
            x = a[0]
            if isinstance(x, AnySymbolicStr):
                return x
            is_symint = isinstance(x, _bl.SymbolicInt) and not isinstance(x, _bl.SymbolicBool)
            if is_symint:
                from .arrstr import IntStr

                return IntStr(x.var)
    if one:
        return _bl.invoke_dunder(x, "__str__")
    ra = tuple(deep_realize(v) for v in a)
    return str(*ra)  # from this frame: native


def _int_patch(val=0, *rest, **kw):
    with NoTracing():
        from .arrstr import ArrStr, IntStr

        plain = not rest and not kw
        if plain and isinstance(val, IntStr) and val.__dict__["_mat"] is None:
            return val.int_value()
        if isinstance(val, _bl.SymbolicInt) and plain:
            return val
    val = deep_realize(val)
    rest = tuple(deep_realize(v) for v in rest)
    kw = {k: deep_realize(v) for k, v in kw.items()}
    return int(val, *rest, **kw)  # from this frame: native


def _install_dateutil_shim():
    """boundary shim: dateutil.parser.parse runs natively on the (pinned) text; CrossHair's pure-Python datetime
    classes do not interoperate with dateutil's tzinfo objects."""
    try:
        import dateutil.parser as dp
    except ImportError:
        return
    real = dp.parse

    def _parse_shim(timestr, *a, **kw):
        from .arrstr import pin as _pin

        ts = _pin(timestr, "dateutil.parser.parse") if isinstance(timestr, AnySymbolicStr) else timestr
        ra = tuple(deep_realize(x) for x in a)
        rk = {k: deep_realize(v) for k, v in kw.items()}
        with NoTracing():
            return real(ts, *ra, **rk)

    _core._PATCH_REGISTRATIONS[real] = _parse_shim


_done = False


def install():
    global _done
    if _done:
        return
    import crosshair.core_and_libs  # noqa: F401  default registrations

    _core._PATCH_REGISTRATIONS[str.__mod__] = _percent
    _core._PATCH_REGISTRATIONS[format] = _format
    _install_dateutil_shim()
    _core._PATCH_REGISTRATIONS[str] = _str_patch
    _core._PATCH_REGISTRATIONS[int] = _int_patch
    for name in ("startswith", "endswith", "__contains__", "replace", "split", "find", "partition"):
        meth, patched = _wrap_str_method(name)
        _core._PATCH_REGISTRATIONS[meth] = patched
    _done = True


def _z3_from_concrete(cls, s):
    return cls(_encode_py_string(s))


Z3Str.from_concrete = classmethod(_z3_from_concrete)
