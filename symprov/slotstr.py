"""SlotStr: bounded symbolic string as guarded code-point slots (z3 Int/Bool only; no sequence theory).

The string is the subsequence of slots whose guard holds.  Concatenation, single-character membership,
replace(c, w) with a one-character pattern and emptiness tests stay inside linear integer arithmetic with no
forking, so an escaping kernel is decided for ALL strings of up to N code points by one solver call.
"""
import z3
from crosshair.libimpl.builtinslib import AnySymbolicStr, SymbolicBool, SymbolicInt
from crosshair.statespace import context_statespace
from crosshair.tracers import NoTracing
from crosshair.util import CrossHairValue


def _slots_of(x):
    if isinstance(x, SlotStr):
        return list(x.slots)
    if isinstance(x, str):
        return [(z3.BoolVal(True), z3.IntVal(ord(ch))) for ch in x]
    return None


class SlotStr(AnySymbolicStr, CrossHairValue):
    def __init__(self, slots):
        self.slots = list(slots)

    @classmethod
    def fresh(cls, name, n):
        with NoTracing():
            sp = context_statespace()
            u = sp.uniq()
            ln = z3.Int("%s_len%s" % (name, u))
            sp.add(z3.And(ln >= 0, ln <= n))
            cs = [z3.Int("%s_c%d%s" % (name, i, u)) for i in range(n)]
            for c in cs:
                # Unicode scalar values (no surrogates)
                sp.add(z3.And(c >= 0, c <= 0x10FFFF, z3.Or(c < 0xD800, c > 0xDFFF)))
            r = cls([(i < ln, cs[i]) for i in range(n)])
            r.len_var = ln
            r.chars = cs
            return r

    @classmethod
    def from_concrete(cls, s):
        return cls(_slots_of(s))

    def eval(self, mdl):
        out = []
        for g, c in self.slots:
            if z3.is_true(mdl.eval(g, model_completion=True)):
                out.append(chr(mdl.eval(c, model_completion=True).as_long()))
        return "".join(out)

    def __ch_realize__(self):
        from .z3str import PINNED
        import os
        if os.environ.get("TRACE_REALIZE"):
            import traceback
            traceback.print_stack(limit=12)

        with NoTracing():
            sp = context_statespace()
            from .z3str import stable_values

            flat = []
            for g, c in self.slots:
                flat.extend([g, c])
            vals = stable_values(sp, flat)
            out = []
            for i, (g, c) in enumerate(self.slots):
                gv = vals[2 * i]
                if not (z3.is_true(g) or z3.is_false(g)):
                    sp.add(g == gv)
                if z3.is_true(gv):
                    cv = vals[2 * i + 1]
                    if not z3.is_int_value(c):
                        sp.add(c == cv)
                    out.append(chr(cv.as_long()))
            PINNED.append(("slot", "realize"))
            return "".join(out)

    def __ch_pytype__(self):
        return str

    def __hash__(self):
        return hash(self.__ch_realize__())

    def __str__(self):
        return self

    def __repr__(self):
        return repr(self.__ch_realize__())

    def __len__(self):
        with NoTracing():
            return SymbolicInt(z3.Sum([z3.If(g, 1, 0) for g, _ in self.slots]) if self.slots else z3.IntVal(0))

    def __bool__(self):
        with NoTracing():
            b = SymbolicBool(z3.Or([g for g, _ in self.slots]) if self.slots else z3.BoolVal(False))
        return b.__bool__()

    def __add__(self, o):
        with NoTracing():
            s = _slots_of(o)
            return NotImplemented if s is None else SlotStr(self.slots + s)

    def __radd__(self, o):
        with NoTracing():
            s = _slots_of(o)
            return NotImplemented if s is None else SlotStr(s + self.slots)

    def __contains__(self, o):
        with NoTracing():
            if isinstance(o, str) and len(o) == 1:
                k = ord(o)
                return SymbolicBool(
                    z3.Or([z3.And(g, c == k) for g, c in self.slots]) if self.slots else z3.BoolVal(False)
                )
            if isinstance(o, str) and len(o) == 0:
                return True
        return o in self.__ch_realize__()

    def replace(self, old, new, count=-1):
        with NoTracing():
            ok = isinstance(old, str) and len(old) == 1 and isinstance(new, str) and count == -1
            if ok:
                k = ord(old)
                out = []
                for g, c in self.slots:
                    if z3.is_int_value(c):
                        # constant slot: either never or always the pattern - no conditional expansion needed
                        if c.as_long() != k:
                            out.append((g, c))
                        else:
                            for ch in new:
                                out.append((g, z3.IntVal(ord(ch))))
                        continue
                    hit = z3.simplify(z3.And(g, c == k))
                    if len(new) == 0:
                        out.append((z3.simplify(z3.And(g, c != k)), c))
                    else:
                        out.append((g, z3.If(c == k, ord(new[0]), c)))
                        for ch in new[1:]:
                            out.append((hit, z3.IntVal(ord(ch))))
                return SlotStr(out)
        return self.__ch_realize__().replace(old, new, count)

    def __eq__(self, o):
        with NoTracing():
            if isinstance(o, str) and len(o) == 0:
                return SymbolicBool(z3.Not(z3.Or([g for g, _ in self.slots])) if self.slots else z3.BoolVal(True))
            if isinstance(o, (str, SlotStr)):
                return SymbolicBool(slots_equal(self.slots, _slots_of(o)))
            return False

    def __ne__(self, o):
        with NoTracing():
            if isinstance(o, (str, SlotStr)):
                return SymbolicBool(z3.Not(slots_equal(self.slots, _slots_of(o))))
            return True

    def join(self, items):
        items = list(items)
        if not items:
            return ""
        out = items[0]
        for it in items[1:]:
            out = out + self + it
        return out

    def __getitem__(self, i):
        return self.__ch_realize__()[i]

    def __iter__(self):
        return iter(self.__ch_realize__())

    def startswith(self, p, start=None, end=None):
        return self.__ch_realize__().startswith(p, start, end)

    def endswith(self, p, start=None, end=None):
        return self.__ch_realize__().endswith(p, start, end)

    def __format__(self, spec):
        if spec == "":
            return self
        return format(self.__ch_realize__(), spec)

    def encode(self, encoding="utf-8", errors="strict"):
        return self.__ch_realize__().encode(encoding, errors)


def _make_fallback(name):
    def method(self, *a, **kw):
        s = self.__ch_realize__()
        with NoTracing():
            return getattr(s, name)(*a, **kw)

    method.__name__ = name
    return method


for _name in dir(str):
    if _name.startswith("_") or _name in SlotStr.__dict__:
        continue
    setattr(SlotStr, _name, _make_fallback(_name))


def slots_equal(a, b):
    """z3 Bool: the two guarded slot sequences spell the same string (O(|a|*|b|) position formula)."""
    def pos(sl):
        out = []
        acc = z3.IntVal(0)
        for g, c in sl:
            out.append(acc)
            acc = acc + z3.If(g, 1, 0)
        return out, acc

    pa, la = pos(a)
    pb, lb = pos(b)
    conj = [la == lb]
    for (ga, ca), ia in zip(a, pa):
        for (gb, cb), ib in zip(b, pb):
            conj.append(z3.Implies(z3.And(ga, gb, ia == ib), ca == cb))
    return z3.And(conj)


def run_reader(slots, step, init, final):
    """Fold a specification transducer over guarded slots; inactive slots leave the state unchanged."""
    st = dict(init)
    for g, c in slots:
        if z3.is_false(g):
            continue
        nxt = step(st, c)
        if z3.is_true(g):
            st = {k: z3.simplify(nxt[k]) for k in st}
        else:
            st = {k: z3.simplify(z3.If(g, nxt[k], st[k])) for k in st}
    return final(st)
