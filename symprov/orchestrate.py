"""Orchestrator: runs Stage A shards (symbolic, de-hashed build) and Stage B replays (unmodified build) in parallel,
applies the known-findings file, writes evidence/<id>.json and sets the exit code.

exit 0  property held on everything explored (INCONCLUSIVE obligations are listed, never hidden)
exit 1  + 'VIOLATION property=<id> replay=<path>' for a counterexample that replays on the unmodified build
exit 3  harness / encoding error (Stage A refutation that does not reproduce; worker crash)
"""
import argparse
import importlib
import json
import os
import shutil
import subprocess
import sys
import tempfile
import time
from concurrent.futures import ThreadPoolExecutor

VERIF = os.path.dirname(os.path.dirname(os.path.abspath(__file__)))
OUT = os.environ.get("VERIF_OUT") or VERIF  # evidence/ and replays/ go here (sweeps against scratch trees use a temp dir)
PY = sys.executable
HARNESS = {
    "C%02d" % i: "harness.c%02d" % i for i in range(1, 19)
}


def load_findings():
    p = os.path.join(VERIF, "known_findings.json")
    if not os.path.exists(p):
        return {"open": [], "fixed": []}
    with open(p) as f:
        return json.load(f)


def run_job(job):
    """Stage A then Stage B for one shard; returns (job, stageA result dict or None, stageB dict or None, log)."""
    env = dict(os.environ)
    env["PYTHONPATH"] = VERIF
    env["PYTHONHASHSEED"] = "0"
    env["VERIF_OPEN_FINDINGS"] = json.dumps(job["open"])
    a_out = os.path.join(job["work"], "a_%s_%d.json" % (job["ob"], job["shard"]))
    b_out = os.path.join(job["work"], "b_%s_%d.json" % (job["ob"], job["shard"]))
    log = ""
    t0 = time.time()
    hard = job["budget"] * 1.5 + 120
    try:
        p = subprocess.run(
            [PY, "-m", "symprov.stagea", job["module"], job["ob"], str(job["shard"]), job["tier"], a_out],
            cwd=VERIF, env=env, capture_output=True, text=True, timeout=hard,
        )
        log += p.stdout[-2000:] + p.stderr[-4000:]
        if p.returncode != 0 or not os.path.exists(a_out):
            return job, None, None, "stage A failed rc=%s\n%s" % (p.returncode, log)
    except subprocess.TimeoutExpired:
        return job, {"verdict": "INCONCLUSIVE", "exhausted": False, "counts": {}, "paths": [], "queries": 0,
                     "solver_s": 0.0, "wall_s": hard, "params": job["params"], "why": "hard timeout"}, \
            {"replays": []}, "stage A hard timeout"
    with open(a_out) as f:
        a = json.load(f)
    try:
        p = subprocess.run([PY, "-m", "symprov.stageb", a_out, b_out], cwd=VERIF, env=env,
                           capture_output=True, text=True, timeout=hard)
        log += p.stdout[-2000:] + p.stderr[-4000:]
        if p.returncode != 0 or not os.path.exists(b_out):
            return job, a, None, "stage B failed rc=%s\n%s" % (p.returncode, log)
    except subprocess.TimeoutExpired:
        return job, a, None, "stage B hard timeout"
    with open(b_out) as f:
        b = json.load(f)
    a["job_wall_s"] = round(time.time() - t0, 2)
    return job, a, b, log


def replay_file(path):
    with open(path) as f:
        w = json.load(f)
    env = dict(os.environ)
    env["PYTHONPATH"] = VERIF
    code = (
        "import sys, json, importlib; sys.path.insert(0, %r);"
        "from symprov.stageb import replay; w = json.load(open(%r));"
        "m = importlib.import_module(w['module']); ob = [o for o in m.OBLIGATIONS if o.name == w['obligation']][0];"
        "r = replay(ob.fn, w['witness'], dict(w['params'], tier=w.get('tier', 'quick'), prop=w['module'][-3:].upper()), ());"
        "print(json.dumps(r, default=repr)); sys.exit(1 if r['status'] == 'REFUTED' else 0)"
    ) % (os.environ.get("PROV_SRC", "/repo/src"), path)
    p = subprocess.run([PY, "-c", code], cwd=VERIF, env=env, capture_output=True, text=True)
    return p.returncode, p.stdout, p.stderr


def main():
    ap = argparse.ArgumentParser()
    ap.add_argument("prop")
    ap.add_argument("--tier", default=os.environ.get("VERIF_TIER") or "quick", choices=["quick", "thorough"])
    ap.add_argument("--replay")
    ap.add_argument("--only", help="run only this obligation")
    ap.add_argument("--jobs", type=int, default=int(os.environ.get("VERIF_JOBS", "16")))
    ap.add_argument("--keep", action="store_true")
    args = ap.parse_args()
    prop = args.prop.upper()

    if args.replay:
        rc, out, err = replay_file(args.replay)
        sys.stdout.write(out)
        sys.stderr.write(err)
        if rc == 1:
            print("VIOLATION property=%s replay=%s" % (prop, args.replay))
        sys.exit(rc)

    seed = int(os.environ.get("VERIF_SEED", "0") or 0)
    sys.path.insert(0, VERIF)
    sys.path.insert(0, os.environ.get("PROV_SRC", "/repo/src"))
    mod = importlib.import_module(HARNESS[prop])
    findings = load_findings()
    open_f = [f for f in findings.get("open", []) if f["property"] == prop]
    open_ids = [f["id"] for f in open_f]
    import glob
    for old in glob.glob(os.path.join(OUT, "replays", "%s_*.json" % prop)):
        os.remove(old)
    work = tempfile.mkdtemp(prefix="symprov_%s_" % prop)
    t0 = time.time()
    jobs = []
    for ob in mod.OBLIGATIONS:
        if args.only and ob.name != args.only:
            continue
        for i, params in enumerate(ob.shards(args.tier)):
            jobs.append({"module": HARNESS[prop], "ob": ob.name, "shard": i, "tier": args.tier, "work": work,
                         "open": open_ids, "budget": ob.budget(args.tier), "params": params})
    results = []
    try:
        with ThreadPoolExecutor(max_workers=args.jobs) as ex:
            for r in ex.map(run_job, jobs):
                results.append(r)
        rc = aggregate(prop, mod, args, seed, results, open_f, findings, t0)
    finally:
        if not args.keep:
            shutil.rmtree(work, ignore_errors=True)
    sys.exit(rc)


def aggregate(prop, mod, args, seed, results, open_f, findings, t0):
    obs_by_name = {o.name: o for o in mod.OBLIGATIONS}
    per_ob = {}
    violations = []
    errors = []
    mismatches = []
    samples = []
    total_paths = total_dec = total_valid = total_q = 0
    total_solver = 0.0
    encoded = set()
    drift = 0
    for job, a, b, log in results:
        name = job["ob"]
        st = per_ob.setdefault(name, {"shards": 0, "paths": 0, "confirmed": 0, "refuted": 0, "unknown": 0,
                                      "ignored": 0, "queries": 0, "solver_s": 0.0, "exhausted_shards": 0,
                                      "pinned_paths": 0, "replayed_ok": 0, "verdicts": [], "reach": 0,
                                      "wall_s": 0.0, "inconclusive_shards": []})
        st["shards"] += 1
        if a is None:
            errors.append("%s shard %d: %s" % (name, job["shard"], log[-3000:]))
            continue
        encoded.update(a.get("encoded_modules", []))
        c = a.get("counts", {})
        st["paths"] += len(a["paths"])
        st["confirmed"] += c.get("CONFIRMED", 0)
        st["refuted"] += c.get("REFUTED", 0)
        st["unknown"] += c.get("UNKNOWN", 0) + c.get("NONDET", 0)
        st["ignored"] += c.get("IGNORED", 0)
        st["queries"] += a.get("queries", 0)
        st["solver_s"] += a.get("solver_s", 0.0)
        st["wall_s"] = max(st["wall_s"], a.get("wall_s", 0.0))
        st["exhausted_shards"] += 1 if a.get("exhausted") else 0
        shard_verdict_idx = len(st["verdicts"])
        st["verdicts"].append(a["verdict"])
        nviol_before = len(violations)
        if a["verdict"] == "INCONCLUSIVE":
            st["inconclusive_shards"].append({"shard": job["shard"], "params": job["params"], "counts": c,
                                              "why": a.get("why", "budget or unknown paths")})
        total_paths += len(a["paths"])
        total_q += a.get("queries", 0)
        total_solver += a.get("solver_s", 0.0)
        if b is None:
            errors.append("%s shard %d: %s" % (name, job["shard"], log[-3000:]))
            continue
        reps = {r["n"]: r for r in b["replays"] if r}
        for p in a["paths"]:
            for note in p.get("notes", []) or []:
                nn = st.setdefault("notes", {})
                nn[note] = nn.get(note, 0) + 1
            total_dec += p.get("decisions", 0)
            if p.get("pins"):
                st["pinned_paths"] += 1
            r = reps.get(p["n"])
            if r is None:
                continue
            wfile = {"property": prop, "module": job["module"], "obligation": name, "params": job["params"],
                     "tier": job["tier"], "witness": p["witness"]}
            if p["status"] == "REFUTED":
                if r["status"] == "REFUTED":
                    violations.append((wfile, r.get("msg") or p.get("msg"), "stageA+B"))
                else:
                    # a counterexample that does not reproduce on the real build is an encoding mismatch, never a
                    # violation: the obligation is reported INCONCLUSIVE (the symbolic model disagrees with CPython here)
                    mismatches.append("%s shard %d path %d: Stage A refuted (%s) but Stage B says %s %s; witness %s" % (
                        name, job["shard"], p["n"], p.get("msg"), r["status"], r.get("msg", ""),
                        json.dumps(p["witness"])))
                    st["verdicts"].append("INCONCLUSIVE")
            elif p["status"] == "CONFIRMED":
                if r["status"] == "REFUTED":
                    # the real build fails the oracle on a concrete input: a violation whatever Stage A thought
                    violations.append((wfile, r.get("msg"), "stageB"))
                elif r["status"] == "CONFIRMED":
                    if r.get("obs_equal", True):
                        total_valid += 1
                        st["replayed_ok"] += 1
                        if r.get("checks", 0) > 0 and p.get("checks", 0) > 0:
                            st["reach"] += 1
                        if len(samples) < 6 and p["n"] % 7 == 1:
                            samples.append({"obligation": name, "params": job["params"], "witness": p["witness"],
                                            "decisions": p.get("decisions"), "pins": p.get("pins")})
                    else:
                        drift += 1
                        st.setdefault("drift", []).append({"n": p["n"], "witness": p["witness"],
                                                          "a": r.get("obs_a"), "b": r.get("obs")})
                else:
                    st.setdefault("replay_other", []).append({"n": p["n"], "status": r["status"],
                                                              "msg": r.get("msg"), "witness": p["witness"]})
        if a["verdict"] == "REFUTED" and len(violations) == nviol_before:
            st["verdicts"][shard_verdict_idx] = "INCONCLUSIVE"  # refuted only symbolically: did not reproduce
    # ---- known findings: replay each listed witness with the region NOT excluded --------------------------
    known_lines = []
    for f in open_f:
        wpath = os.path.join(OUT, "replays", "known_%s.json" % f["id"])
        with open(wpath, "w") as fh:
            json.dump(dict(f["witness"], property=prop), fh)
        rc, out, err = replay_file(wpath)
        if rc == 1:
            known_lines.append("KNOWN-FINDING: property=%s %s [%s]" % (prop, f["what_fails"], f["id"]))
        else:
            known_lines.append("NOTE: known finding %s no longer reproduces (rc=%s)" % (f["id"], rc))
    # ---- verdict per obligation ------------------------------------------------------------------------------
    ob_out = []
    all_exhaustive = True
    for name, st in per_ob.items():
        ob = obs_by_name[name]
        vs = st.pop("verdicts")
        if "REFUTED" in vs:
            v = "REFUTED"
        elif "INCONCLUSIVE" in vs or st["exhausted_shards"] < st["shards"]:
            v = "INCONCLUSIVE"
        elif "PATH_COMPLETE" in vs:
            v = "PATH_COMPLETE"
        else:
            v = "PROVED_IN_BOUNDS"
        if v in ("PROVED_IN_BOUNDS", "PATH_COMPLETE") and ob.best_verdict == "PATH_COMPLETE":
            v = "PATH_COMPLETE"
        if v in ("PROVED_IN_BOUNDS", "PATH_COMPLETE") and st["reach"] == 0:
            errors.append("%s: vacuous - no confirmed path reached an assertion and replayed" % name)
        if v == "INCONCLUSIVE":
            all_exhaustive = False
        st.update(name=name, verdict=v, desc=ob.desc, bounds=ob.bounds_for(args.tier), functions=ob.functions,
                  assumptions=ob.assumptions, shims=ob.shims, solver_s=round(st["solver_s"], 2))
        ob_out.append(st)
    # ---- violations -------------------------------------------------------------------------------------------
    new_viol = []
    seen_msgs = set()
    for wfile, msg, src in violations:
        key = (wfile["obligation"], msg)
        if key in seen_msgs and len(new_viol) >= 3:
            continue
        seen_msgs.add(key)
        new_viol.append((wfile, msg, src))
    classes = {}
    for wfile, msg, src in violations:
        key = "%s: %s" % (wfile["obligation"], (msg or "")[:160])
        classes.setdefault(key, [0, wfile["params"], wfile["witness"]])
        classes[key][0] += 1
    if os.environ.get("VERIF_SHOW_CLASSES"):
        for kk, (n, pp, ww) in sorted(classes.items(), key=lambda kv: -kv[1][0]):
            print("CLASS x%d %s\n      params=%s witness=%s" % (n, kk, json.dumps(pp), json.dumps(ww)[:300]))
    os.makedirs(os.path.join(OUT, "replays"), exist_ok=True)
    for line in known_lines:
        print(line)
    rc = 0
    for k, (wfile, msg, src) in enumerate(new_viol[:10]):
        path = os.path.join(OUT, "replays", "%s_%s_%d.json" % (prop, wfile["obligation"], k))
        wfile["msg"] = msg
        with open(path, "w") as fh:
            json.dump(wfile, fh, indent=1)
        print("VIOLATION property=%s replay=%s" % (prop, path))
        print("  obligation=%s (%s): %s" % (wfile["obligation"], src, msg))
        rc = 1
    if errors and rc == 0:
        rc = 3
    wall = round(time.time() - t0, 2)
    for st in ob_out:
        print("%s %-22s %-17s shards=%d paths=%d confirmed=%d unknown=%d ignored=%d replayed_ok=%d queries=%d solver=%.1fs" % (
            prop, st["name"], st["verdict"], st["shards"], st["paths"], st["confirmed"], st["unknown"],
            st["ignored"], st["replayed_ok"], st["queries"], st["solver_s"]))
    if drift:
        print("NOTE: %d confirmed paths whose Stage A / Stage B observations differ (encoding drift, see evidence)" % drift)
    for e in errors[:10]:
        print("ERROR:", e[:600])
    for e in mismatches[:5]:
        print("ENCODING-MISMATCH (reported as inconclusive, not as a violation):", e[:600])
    if not samples:
        samples = [{"note": "no confirmed+replayed path"}]
    ev = {
        "property_id": prop,
        "tier": args.tier,
        "seed": seed,
        "level": "model_checking",
        "coverage": {
            "states": max(total_paths, 0),
            "transitions": max(total_dec, 0),
            "traces_validated_against_impl": total_valid,
            "samples": samples,
            "exhaustive": bool(all_exhaustive and not errors),
            "explanation": "states = execution paths of the real (de-hashed) prov code explored symbolically; "
                           "transitions = solver-decided branch decisions on those paths; "
                           "traces_validated = path witnesses replayed on the unmodified build with equal observations",
            "obligations_detail": ob_out,
            "solver_queries": total_q,
            "solver_s": round(total_solver, 2),
            "encoded_modules": sorted(encoded),
            "engine": "CrossHair 0.0.110 search tree + z3 (wheel) over AST-regenerated de-hashed build of /repo/src",
            "known_findings": known_lines,
            "encoding_drift_paths": drift,
            "errors": errors[:20],
            "encoding_mismatches": mismatches[:20],
        },
        "assumptions": sorted(set(a for o in mod.OBLIGATIONS for a in o.assumptions)) + [
            "set iteration order / PYTHONHASHSEED not modelled (Stage A insertion order, Stage B interpreter order)",
            "trusted: z3, CrossHair tracer, CPython, the container rewrite (validated per path by Stage B replay)",
        ],
        "wall_s": wall,
        "violations": len(new_viol),
    }
    os.makedirs(os.path.join(OUT, "evidence"), exist_ok=True)
    with open(os.path.join(OUT, "evidence", "%s.json" % prop), "w") as fh:
        json.dump(ev, fh, indent=1, default=repr)
    print("%s tier=%s wall=%.1fs exit=%d" % (prop, args.tier, wall, rc))
    return rc


if __name__ == "__main__":
    main()
