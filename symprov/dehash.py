"""De-hashed build of prov: load prov.* from the CURRENT /repo/src sources with every hashed container replaced
by an insertion-ordered container that looks keys up by identity / == scan.

Only container displays and comprehensions are rewritten ({..} -> dict([...]), {a} -> set([...])); the names
dict/set/frozenset/defaultdict are bound to the L* classes below inside the prov modules.  Everything else is the
repository's code, recompiled from the working tree on every run.
"""
import ast
import importlib.abc
import importlib.util
import os
import sys
from abc import ABCMeta
from collections.abc import MutableMapping, MutableSet, Set

SRC = os.environ.get("PROV_SRC", "/repo/src")

_REAL = {"LDict": dict, "LDefaultDict": dict, "LSet": (set, frozenset), "LFrozenSet": frozenset}


class _DM(ABCMeta):
    def __instancecheck__(cls, obj):
        return isinstance(obj, _REAL.get(cls.__name__, ())) or ABCMeta.__instancecheck__(cls, obj)

    def __subclasscheck__(cls, sub):
        try:
            if issubclass(sub, _REAL.get(cls.__name__, ())):
                return True
        except TypeError:
            pass
        return ABCMeta.__subclasscheck__(cls, sub)


def _is_strlike(x):
    return isinstance(x, str) or type(x).__name__ in ("Z3Str", "SlotStr", "ArrStr", "LazyIntSymbolicStr")


def _is_num(x):
    return isinstance(x, (int, float)) or type(x).__name__ in ("SymbolicInt", "SymbolicBool", "SymbolicFloat")


def keq(a, b):
    """Key equality of a hashed container: identical, or == AND hash-compatible.

    Two keys are hash-compatible when Python would (have to) give them the same hash if they are equal: both
    strings, both numbers, or both using the very same __hash__ function.  prov's Identifier and QualifiedName
    compare equal on the URI but define different __hash__ functions, so a real set keeps both; this mirrors it.
    Tuples / frozensets are compared element-wise with the same rule.
    """
    if a is b:
        return True
    if isinstance(a, tuple) and isinstance(b, tuple):
        if len(a) != len(b):
            return False
        for x, y in zip(a, b):
            if not keq(x, y):
                return False
        return True
    if _is_strlike(a) or _is_strlike(b):
        if not (_is_strlike(a) and _is_strlike(b)):
            return False
        return a == b
    if _is_num(a) or _is_num(b):
        if not (_is_num(a) and _is_num(b)):
            return False
        return a == b
    ha = getattr(type(a), "__hash__", None)
    hb = getattr(type(b), "__hash__", None)
    if ha is not hb:
        return False
    return a == b


class LDict(MutableMapping, metaclass=_DM):
    def __init__(self, *a, **kw):
        self._k = []
        self._v = []
        if a:
            src = a[0]
            if hasattr(src, "keys"):
                for k in src.keys():
                    self[k] = src[k]
            else:
                for k, v in src:
                    self[k] = v
        for k, v in kw.items():
            self[k] = v

    def _idx(self, key):
        for i, k in enumerate(self._k):
            if keq(k, key):
                return i
        return -1

    def __getitem__(self, key):
        i = self._idx(key)
        if i < 0:
            m = getattr(type(self), "__missing__", None)
            if m is not None:
                return m(self, key)
            raise KeyError(key)
        return self._v[i]

    def __setitem__(self, key, value):
        i = self._idx(key)
        if i < 0:
            self._k.append(key)
            self._v.append(value)
        else:
            self._v[i] = value

    def __delitem__(self, key):
        i = self._idx(key)
        if i < 0:
            raise KeyError(key)
        del self._k[i]
        del self._v[i]

    def __iter__(self):
        return iter(list(self._k))

    def __len__(self):
        return len(self._k)

    def __contains__(self, key):
        return self._idx(key) >= 0

    def get(self, key, default=None):
        i = self._idx(key)
        return default if i < 0 else self._v[i]

    def copy(self):
        return type(self)(self)

    def __repr__(self):
        return "LDict(%r)" % list(zip(self._k, self._v))

    def __eq__(self, other):
        if not isinstance(other, (LDict, dict)):
            return NotImplemented
        if len(self) != len(other):
            return False
        for k, v in zip(self._k, self._v):
            if k not in other or not (other[k] == v):
                return False
        return True

    __hash__ = None


class LDefaultDict(LDict):
    def __init__(self, factory=None, *a, **kw):
        self.default_factory = factory
        LDict.__init__(self, *a, **kw)

    def __missing__(self, key):
        if self.default_factory is None:
            raise KeyError(key)
        v = self.default_factory()
        self[key] = v
        return v

    def copy(self):
        return LDefaultDict(self.default_factory, self)


class LSet(MutableSet, metaclass=_DM):
    def __init__(self, it=()):
        self._e = []
        for x in it:
            self.add(x)

    def __contains__(self, x):
        for e in self._e:
            if keq(e, x):
                return True
        return False

    def __iter__(self):
        return iter(list(self._e))

    def __len__(self):
        return len(self._e)

    def add(self, x):
        if x not in self:
            self._e.append(x)

    def discard(self, x):
        for i, e in enumerate(self._e):
            if keq(e, x):
                del self._e[i]
                return

    def remove(self, x):
        if x not in self:
            raise KeyError(x)
        self.discard(x)

    def update(self, *its):
        for it in its:
            for x in it:
                self.add(x)

    def union(self, *its):
        r = type(self)(self._e)
        for it in its:
            for x in it:
                if x not in r:
                    r._e.append(x)
        return r

    def copy(self):
        return type(self)(self._e)

    def __repr__(self):
        return "%s(%r)" % (type(self).__name__, self._e)

    @classmethod
    def _from_iterable(cls, it):
        return cls(it)

    def __eq__(self, other):
        if not isinstance(other, (Set, set, frozenset)):
            return NotImplemented
        if len(self) != len(other):
            return False
        if isinstance(other, LSet):
            for x in self._e:
                if x not in other:
                    return False
            return True
        for x in self._e:
            if not any(keq(x, y) for y in other):
                return False
        return True

    def __ne__(self, other):
        r = self.__eq__(other)
        return r if r is NotImplemented else not r

    __hash__ = None


class LFrozenSet(LSet):
    def __hash__(self):
        return 7


class _T(ast.NodeTransformer):
    def visit_Dict(self, node):
        self.generic_visit(node)
        if any(k is None for k in node.keys):
            return node
        return ast.copy_location(
            ast.Call(
                ast.Name("dict", ast.Load()),
                [ast.List([ast.Tuple([k, v], ast.Load()) for k, v in zip(node.keys, node.values)], ast.Load())],
                [],
            ),
            node,
        )

    def visit_Set(self, node):
        self.generic_visit(node)
        return ast.copy_location(ast.Call(ast.Name("set", ast.Load()), [ast.List(node.elts, ast.Load())], []), node)

    def visit_DictComp(self, node):
        self.generic_visit(node)
        return ast.copy_location(
            ast.Call(
                ast.Name("dict", ast.Load()),
                [ast.ListComp(ast.Tuple([node.key, node.value], ast.Load()), node.generators)],
                [],
            ),
            node,
        )

    def visit_SetComp(self, node):
        self.generic_visit(node)
        return ast.copy_location(
            ast.Call(ast.Name("set", ast.Load()), [ast.ListComp(node.elt, node.generators)], []), node
        )


INJECT = {"dict": LDict, "set": LSet, "frozenset": LFrozenSet}
LOADED = {}  # module name -> path  (reported in evidence as "functions/modules encoded")


class _Loader(importlib.abc.Loader):
    def __init__(self, path, name):
        self.path = path
        self.name = name

    def create_module(self, spec):
        return None

    def exec_module(self, module):
        with open(self.path, encoding="utf-8") as f:
            src = f.read()
        tree = _T().visit(ast.parse(src, self.path))
        ast.fix_missing_locations(tree)
        module.__dict__.update(INJECT)
        exec(compile(tree, self.path, "exec"), module.__dict__)
        import collections

        for k, v in list(module.__dict__.items()):
            if v is collections.defaultdict:
                module.__dict__[k] = LDefaultDict
        LOADED[self.name] = self.path


class _Finder(importlib.abc.MetaPathFinder):
    MODS = {
        "prov.identifier",
        "prov.constants",
        "prov.model",
        "prov.graph",
        "prov.dot",
        "prov.serializers.provjson",
        "prov.serializers.provxml",
        "prov.serializers.provn",
        "prov.serializers.provrdf",
    }

    def find_spec(self, name, path, target=None):
        if name in self.MODS:
            p = os.path.join(SRC, *name.split(".")) + ".py"
            if os.path.exists(p):
                return importlib.util.spec_from_file_location(name, p, loader=_Loader(p, name))
        return None


_installed = False


def install():
    global _installed
    if _installed:
        return
    for k in list(sys.modules):
        if k == "prov" or k.startswith("prov."):
            raise RuntimeError("prov imported before dehash.install()")
    sys.meta_path.insert(0, _Finder())
    _installed = True


def plain(x):
    """L-container -> real container (for handing data to C code such as json)."""
    if isinstance(x, LDict):
        return {plain(k): plain(v) for k, v in zip(x._k, x._v)}
    if isinstance(x, LSet):
        return [plain(e) for e in x._e]
    if isinstance(x, dict):
        return {plain(k): plain(v) for k, v in x.items()}
    if isinstance(x, (list, tuple)):
        return [plain(e) for e in x]
    return x
