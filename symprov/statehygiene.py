"""Reset prov's module-level mutable state before every path (Namespace._cache of PROV/XSD/XSI, registry)."""
from . import dehash, symctx

_PRISTINE = []


def install():
    import prov.constants as pc
    from prov.identifier import Namespace

    seen = set()
    mods = [pc]
    try:
        import prov.model as pm

        mods.append(pm)
    except Exception:
        pass
    for m in mods:
        for v in list(vars(m).values()):
            if isinstance(v, Namespace) and id(v) not in seen:
                seen.add(id(v))
                _PRISTINE.append((v, list(v._cache.items())))

    def reset():
        for ns, items in _PRISTINE:
            ns._cache = dehash.LDict(items)

    symctx.add_reset_hook(reset)
