import io, os, tempfile, datetime, subprocess
import prov
from prov.model import *
from prov.dot import prov_to_dot

def doc():
    d = ProvDocument(); d.add_namespace("ex", "http://e/"); return d

# C04
d1 = doc(); d1.wasGeneratedBy("ex:e", "ex:a")
d2 = doc(); d2.wasGeneratedBy("ex:e", "ex:a", identifier="ex:g")
print("C04 rec asym", d1.get_records()[0] == d2.get_records()[0], d2.get_records()[0] == d1.get_records()[0], "| docs", d1 == d2, d2 == d1)
d3 = doc(); d4 = doc(); d4.bundle("ex:b").entity("ex:x")
print("C04 bundles asym", d3 == d4, d4 == d3)
# hash/eq: Identifier vs QualifiedName
q = Namespace("ex", "http://e/")["x"]; i = Identifier("http://e/x")
print("C04 id==qn", q == i, i == q, hash(q) == hash(i))
# C05
a = doc().activity("ex:a"); a.set_time("2020-01-01T00:00:00")
print("C05 set_time", a.get_startTime().__class__.__name__)
# C06
e = doc().entity("ex:e", {"ex:s": "a\\", "ex:f": 1.23456789012, "ex:n": "x\\ny", "ex:r": "a\rb"})
print("C06", e.get_provn())
# C12
d = doc(); u = d.unified(); u.add_namespace("zz", "http://z/")
print("C12 unified shares ns", [n.prefix for n in d.namespaces])
# C16
d = doc(); d.entity("ex:e")
x = d.serialize(format="xml")
r = prov.read(io.StringIO(x))
print("C16 read(xml stream) records", len(r.get_records()))
try:
    r = prov.read(io.BytesIO(x.encode()))
    print("C16 read(xml bytes stream) records", len(r.get_records()))
except Exception as ex: print("C16 bytes", repr(ex))
# C17
t = tempfile.mkdtemp(); os.chdir(t)
d.serialize("a#b.json"); print("C17", sorted(os.listdir(t)))
d.serialize("c d?e.json"); print("C17", sorted(os.listdir(t)))
# C02
for label, mk in [("empty str", lambda d: d.entity("ex:e", {"ex:s": ""})),
                  ("default-ns attr", lambda d: (d.set_default_namespace("http://d/"), d.entity("ex:e", {"k": "v"}))),
                  ("bundle default ns", lambda d: (d.bundle("ex:b").set_default_namespace("http://bd/"), list(d.bundles)[0].entity("x")))]:
    d = doc(); mk(d)
    try:
        r = ProvDocument.deserialize(content=d.serialize(format="xml"), format="xml")
        print("C02", label, "eq:", r == d, "|", [ (str(k), v) for rec in r.get_records() for k, v in rec.attributes], [ (rec.identifier.uri) for b in r.bundles for rec in b.get_records()])
    except Exception as ex:
        print("C02", label, "EXC", repr(ex))
# C15
d = doc(); d.entity("ex:e", {"prov:label": "a<b & \"c\""})
s = prov_to_dot(d, use_labels=True).to_string()
p = subprocess.run(["dot", "-Tdot_json"], input=s.encode(), capture_output=True)
print("C15 use_labels markup rc", p.returncode, p.stderr[:100])
d = doc(); d.entity(Namespace("ex", "http://e/")['a"b'])
s = prov_to_dot(d).to_string()
p = subprocess.run(["dot", "-Tdot_json"], input=s.encode(), capture_output=True)
print("C15 quote in id rc", p.returncode, p.stderr[:100])
