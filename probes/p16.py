import dehash
dehash.Finder.MODS |= {"prov.graph", "prov.dot"}
m = dehash.install()
import json, sys, z3, types
from symrun import explore
from z3str import install_percent_patch
install_percent_patch()
from z3str import install_format_patch; install_format_patch()
from slotstr import SlotStr
from prov.model import ProvDocument
from prov.identifier import Namespace
import prov.dot as pdot
from crosshair.tracers import NoTracing
from crosshair.core import realize, deep_realize
from crosshair.statespace import context_statespace

N = 6
SEEN = []
class Shim:
    """pydot stand-in: records label/URL strings as passed by prov.dot, builds nothing."""
    class _Obj:
        def __init__(self, *a, **kw):
            with NoTracing():
                SEEN.append((type(self).__name__, a, dict(kw)))
        def add_node(self, n): pass
        def add_edge(self, e): pass
        def add_subgraph(self, g): pass
        def set_label(self, l):
            with NoTracing(): SEEN.append(("set_label", (l,), {}))
    class Dot(_Obj): pass
    class Node(_Obj): pass
    class Edge(_Obj): pass
    class Cluster(_Obj): pass
pdot.pydot = Shim

def dot_quoted_ok(tok, src):
    """tok (SlotStr) must be '"' + content + '"' with no unescaped '"' inside; returns z3 Bool (well-formedness only)."""
    st = {"pos": z3.IntVal(0), "bs": z3.BoolVal(False), "closed": z3.BoolVal(False), "ok": z3.BoolVal(True)}
    for g, c in tok.slots:
        first = st["pos"] == 0
        q = c == 34
        ok = z3.And(st["ok"], z3.Implies(first, q), z3.Not(st["closed"]))
        closed = z3.And(z3.Not(first), q, z3.Not(st["bs"]))
        bs = z3.And(z3.Not(first), c == 92, z3.Not(st["bs"]))
        nxt = {"pos": st["pos"] + 1, "bs": bs, "closed": closed, "ok": ok}
        st = {k: z3.If(g, nxt[k], st[k]) for k in st}
    return z3.And(st["ok"], st["closed"], st["pos"] >= 2)

def harness(rec):
    del SEEN[:]
    ex = Namespace("ex", "http://e/")
    l = SlotStr.fresh("l", N)
    if not l: return None
    d = ProvDocument(); d.add_namespace(ex)
    d.entity(ex[l])
    pdot.prov_to_dot(d, use_labels=False, show_element_attributes=False)
    with NoTracing():
        labels = [kw["label"] for k, a, kw in SEEN if k == "Node" and "label" in kw]
        if not labels: return "no label seen"
        lab = labels[0]
        if not isinstance(lab, SlotStr): return "label concretised: %s" % type(lab).__name__
        sp = context_statespace()
        sp.solver.push(); sp.solver.add(z3.Not(dot_quoted_ok(lab, l)))
        r = sp.solver.check()
        if r == z3.sat:
            mdl = sp.solver.model(); k = mdl.eval(l.len_var).as_long()
            w = "".join(chr(mdl.eval(c, model_completion=True).as_long()) for c in l.chars[:k])
            sp.solver.pop(); rec["witness"] = w
            return "label token ill-formed for local part %r" % w
        sp.solver.pop()
    return None

res = explore(harness, budget_s=120, per_path_s=30)
print(json.dumps({k: v for k, v in res.items() if k != "paths"}))
print(res["paths"][:5])
