import dehash
m = dehash.install()
from z3str import Z3Str
from prov.model import ProvDocument, ProvException, Literal
from prov.identifier import Namespace, QualifiedName, Identifier
from prov.constants import *
from prov.serializers import provjson
from crosshair.tracers import is_tracing
from crosshair.core import realize

def strict(v):
    if isinstance(v, QualifiedName): return ("qn", v.uri)
    if isinstance(v, Identifier): return ("uri", v.uri)
    if isinstance(v, Literal): return ("lit", v.value, v.datatype.uri if v.datatype else None, v.langtag)
    if isinstance(v, bool): return ("bool", v)
    if isinstance(v, int): return ("int", v)
    if isinstance(v, str): return ("str", v)
    return ("other", v)

def t_json(kind: int) -> str:
    """
    pre: 0 <= kind <= 4
    post: _ == ""
    """
    if not is_tracing(): return ""
    ex = Namespace("ex", "http://e/")
    s = Z3Str.fresh("s", 4); l = Z3Str.fresh("l", 3); t = Z3Str.fresh("t", 3)
    if len(l) < 1 or ":" in l: return ""
    d = ProvDocument(); d.add_namespace(ex)
    if kind == 0: v = s
    elif kind == 1: v = ex[l]
    elif kind == 2: v = Identifier(s)
    elif kind == 3:
        if len(t) < 1: return ""
        v = Literal(s, langtag=t)
    else: v = Literal(s, ex[l])
    e = d.entity(ex["e"], {ex["a"]: v})
    c = provjson.encode_json_document(d)
    d2 = ProvDocument()
    provjson.decode_json_document(c, d2)
    r = d2.get_records()
    if len(r) != 1: return "count"
    a1 = [(k.uri, strict(x)) for k, x in e.attributes]
    a2 = [(k.uri, strict(x)) for k, x in r[0].attributes]
    if len(a1) != len(a2): return "nattr"
    for x, y in zip(a1, a2):
        if x != y: return "diff %r %r" % (realize(x), realize(y))
    return ""
