import dehash
m = dehash.install()
import json, sys, z3
from symrun import explore, witness
from z3str import install_percent_patch
install_percent_patch()
from slotstr import SlotStr, run_reader
from prov.model import _ensure_multiline_string_triple_quoted as enc
from crosshair.statespace import IgnoreAttempt, context_statespace
from crosshair.tracers import NoTracing

N = int(sys.argv[1])

def esc(x):
    return z3.If(x == ord("t"), 9, z3.If(x == ord("b"), 8, z3.If(x == ord("n"), 10, z3.If(x == ord("r"), 13, z3.If(x == ord("f"), 12,
           z3.If(x == 92, 92, z3.If(x == 34, 34, z3.If(x == 39, 39, -1))))))))

def provn_literal_denotes(lit, src):
    """Spec: `lit` (slots) is a well-formed PROV-N string literal whose value is `src` (fresh SlotStr). Returns z3 Bool."""
    n = src.len_var
    C = z3.Array("C", z3.IntSort(), z3.IntSort())
    sp = context_statespace()
    for i, c in enumerate(src.chars): sp.add(C[i] == c)
    # frame: count leading quotes to decide long/short: phase 0 = opening quotes, 1 = body
    def step(st, ch):
        q = ch == 34
        # opening: up to 3 quotes; short form uses 1, long form uses 3
        in_open = st["phase"] == 0
        open_more = z3.And(in_open, q, st["openq"] < 3)
        # decide end of opening when a non-quote arrives (or 3 reached)
        body = z3.Or(st["phase"] == 1, z3.And(in_open, z3.Not(open_more)))
        long = z3.If(in_open, st["openq"] == 3, st["long"])
        bad_open = z3.And(in_open, z3.Not(open_more), z3.Not(z3.Or(st["openq"] == 1, st["openq"] == 3)))
        # body processing
        after_bs = st["mode"] == 1
        is_bs = ch == 92
        dec = z3.If(after_bs, esc(ch), ch)
        rawq = z3.And(z3.Not(after_bs), q)
        emit = z3.And(body, z3.Not(z3.And(z3.Not(after_bs), is_bs)), z3.Not(rawq))
        err = z3.And(body, z3.Or(z3.And(after_bs, esc(ch) == -1),
                                 z3.And(z3.Not(after_bs), z3.Not(long), z3.Or(ch == 10, ch == 13))))
        # raw quotes in body are pending: either closing quotes or (long form) content quotes followed by more content
        pend = z3.If(z3.And(body, rawq), st["pend"] + 1, z3.If(body, 0, st["pend"]))
        # content quotes flushed when a non-quote body char follows: must be < 3 (long) or 0 (short)
        flush_bad = z3.And(body, z3.Not(rawq), st["pend"] > 0, z3.Or(z3.Not(long), st["pend"] > 2))
        # flushed quotes are content: must match source
        j = st["j"]
        j1 = z3.If(z3.And(body, z3.Not(rawq), st["pend"] >= 1), j + 1, j)
        m1 = z3.Implies(z3.And(body, z3.Not(rawq), st["pend"] >= 1), z3.And(j < n, C[j] == 34))
        j2 = z3.If(z3.And(body, z3.Not(rawq), st["pend"] >= 2), j1 + 1, j1)
        m2 = z3.Implies(z3.And(body, z3.Not(rawq), st["pend"] >= 2), z3.And(j1 < n, C[j1] == 34))
        m3 = z3.Implies(emit, z3.And(j2 < n, C[j2] == dec))
        j3 = z3.If(emit, j2 + 1, j2)
        return {"phase": z3.If(body, 1, 0), "openq": z3.If(open_more, st["openq"] + 1, st["openq"]), "long": long,
                "mode": z3.If(z3.And(body, z3.Not(after_bs), is_bs), 1, 0), "pend": pend, "j": j3,
                "ok": z3.And(st["ok"], z3.Not(bad_open), z3.Not(err), z3.Not(flush_bad), m1, m2, m3)}
    init = {"phase": z3.IntVal(0), "openq": z3.IntVal(0), "long": z3.BoolVal(False), "mode": z3.IntVal(0),
            "pend": z3.IntVal(0), "j": z3.IntVal(0), "ok": z3.BoolVal(True)}
    def final(st):
        # at end: pending raw quotes are the closing delimiter: 1 for short, 3 for long; empty short literal '""' has openq==2, phase 0
        empty_short = z3.And(st["phase"] == 0, st["openq"] == 2)
        closed = z3.And(st["phase"] == 1, st["mode"] == 0, z3.If(st["long"], st["pend"] == 3, st["pend"] == 1))
        return z3.And(st["ok"], z3.Or(z3.And(empty_short, n == 0), z3.And(closed, st["j"] == n)))
    return run_reader(lit.slots, step, init, final)

def harness(rec):
    s = SlotStr.fresh("s", N)
    with NoTracing():
        sp = context_statespace()
        for c in s.chars: sp.add(c != 13)
        if len(sys.argv) > 2:
            for c in s.chars: sp.add(c != 92)
    lit = enc(s)
    with NoTracing():
        if not isinstance(lit, SlotStr): return "concretised: %r" % type(lit)
        good = provn_literal_denotes(lit, s)
        sp = context_statespace()
        sp.solver.push(); sp.solver.add(z3.Not(good))
        r = sp.solver.check()
        if r == z3.sat:
            mdl = sp.solver.model(); k = mdl.eval(s.len_var).as_long()
            w = "".join(chr(mdl.eval(c, model_completion=True).as_long()) for c in s.chars[:k])
            sp.solver.pop(); rec["witness"] = w
            return "literal does not denote source: %r" % w
        sp.solver.pop()
        if r != z3.unsat: return "unknown"
    return None

res = explore(harness, budget_s=600, per_path_s=60)
print(json.dumps({k: v for k, v in res.items() if k != "paths"}))
print(res["paths"])
