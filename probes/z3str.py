"""Prototype: a CrossHair symbolic str backed by the z3 String theory (not per-codepoint ints)."""
import z3
from numbers import Integral
from crosshair.libimpl.builtinslib import AnySymbolicStr, SymbolicBool, SymbolicInt, LazyIntSymbolicStr
from crosshair.statespace import context_statespace
from crosshair.tracers import NoTracing, ResumedTracing, is_tracing
from crosshair.util import CrossHairValue
from crosshair.core import realize

_n = [0]

def _smt(x):
    """-> z3 String expr or None"""
    if isinstance(x, Z3Str):
        return x.var
    if isinstance(x, str):
        return z3.StringVal(x)
    if isinstance(x, AnySymbolicStr):
        return z3.StringVal(realize(x))
    return None

class Z3Str(AnySymbolicStr, CrossHairValue):
    def __init__(self, var):
        self.var = var

    @classmethod
    def fresh(cls, name, maxlen):
        with NoTracing():
            space = context_statespace()
            _n[0] += 1
            v = z3.String("%s_%s" % (name, space.uniq()))
            space.add(z3.Length(v) <= maxlen)
            return cls(v)

    def __ch_realize__(self):
        with NoTracing():
            space = context_statespace()
            if z3.is_string_value(self.var):
                return self.var.as_string()
            space.find_model_value(self.var)
            node = space.choices_made[-1]
            return _py(node.condition_value)

    def __ch_pytype__(self):
        return str

    def __hash__(self):
        return hash(self.__ch_realize__())

    def __len__(self):
        with NoTracing():
            return SymbolicInt(z3.Length(self.var))

    def __bool__(self):
        with NoTracing():
            b = SymbolicBool(z3.Length(self.var) > 0)
        return b.__bool__()

    def __eq__(self, other):
        with NoTracing():
            o = _smt(other)
            if o is None:
                return False if not isinstance(other, (str, AnySymbolicStr)) else NotImplemented
            return SymbolicBool(self.var == o)

    def __ne__(self, other):
        with NoTracing():
            o = _smt(other)
            if o is None:
                return True
            return SymbolicBool(self.var != o)

    def __add__(self, other):
        with NoTracing():
            o = _smt(other)
            if o is None:
                return NotImplemented
            return Z3Str(z3.simplify(z3.Concat(self.var, o)))

    def __radd__(self, other):
        with NoTracing():
            o = _smt(other)
            if o is None:
                return NotImplemented
            return Z3Str(z3.simplify(z3.Concat(o, self.var)))

    def __contains__(self, other):
        with NoTracing():
            o = _smt(other)
            if o is None:
                raise TypeError
            return SymbolicBool(z3.Contains(self.var, o))

    def startswith(self, prefix, start=None, end=None):
        if start is not None or end is not None:
            return self[start:end].startswith(prefix)
        with NoTracing():
            if isinstance(prefix, tuple):
                raise NotImplementedError
            o = _smt(prefix)
            return SymbolicBool(z3.PrefixOf(o, self.var))

    def endswith(self, suffix, start=None, end=None):
        with NoTracing():
            o = _smt(suffix)
            return SymbolicBool(z3.SuffixOf(o, self.var))

    def find(self, sub, start=None, end=None):
        with NoTracing():
            o = _smt(sub)
            return SymbolicInt(z3.IndexOf(self.var, o, 0))

    def __getitem__(self, i):
        with NoTracing():
            n = z3.Length(self.var)
            def idx(x, default):
                if x is None:
                    return default
                if isinstance(x, SymbolicInt):
                    x = x.var
                else:
                    x = z3.IntVal(int(x))
                x = z3.If(x < 0, z3.If(x + n < 0, z3.IntVal(0), x + n), z3.If(x > n, n, x))
                return x
            if isinstance(i, slice):
                if i.step not in (None, 1):
                    raise NotImplementedError
                a = idx(i.start, z3.IntVal(0)); b = idx(i.stop, n)
                return Z3Str(z3.simplify(z3.SubString(self.var, a, z3.If(b > a, b - a, 0))))
            raise NotImplementedError("index")

    def split(self, sep=None, maxsplit=-1):
        if sep is None or maxsplit != 1:
            raise NotImplementedError
        if sep in self:
            with NoTracing():
                o = _smt(sep)
                k = z3.IndexOf(self.var, o, 0)
                a = Z3Str(z3.simplify(z3.SubString(self.var, 0, k)))
                b = Z3Str(z3.simplify(z3.SubString(self.var, k + z3.Length(o), z3.Length(self.var))))
            return [a, b]
        return [self]

    def replace(self, old, new, count=-1):
        with NoTracing():
            o = _smt(old); nw = _smt(new)
            if count == 1:
                return Z3Str(z3.Replace(self.var, o, nw))
        # replace-all: unrolled recursion, one fork per occurrence (bounded by the length bound)
        if len(old) == 0:
            raise NotImplementedError("replace all with empty pattern")
        c = self.cut(old)
        if c is None:
            return self
        return c[0] + new + c[1].replace(old, new)

    def cut(self, sep):
        """(head, tail) around the first occurrence of sep, via fresh variables; None if sep does not occur."""
        if sep in self:
            with NoTracing():
                space = context_statespace()
                o = _smt(sep)
                h = z3.String("h_%s" % space.uniq()); t = z3.String("t_%s" % space.uniq())
                space.add(self.var == z3.Concat(h, o, t))
                if z3.is_string_value(o) and len(o.as_string()) == 1:
                    space.add(z3.Not(z3.Contains(h, o)))
                else:
                    space.add(z3.IndexOf(self.var, o, 0) == z3.Length(h))
                return Z3Str(h), Z3Str(t)
        return None

    def matches(self, regex):
        with NoTracing():
            return SymbolicBool(z3.InRe(self.var, regex))

    def isspace(self):
        with NoTracing():
            ws = z3.Plus(z3.Union(*[z3.Re(c) for c in " \t\n\r\x0b\x0c"]))
            return SymbolicBool(z3.InRe(self.var, ws))

    def join(self, items):
        items = list(items)
        if not items:
            return ""
        out = items[0]
        for it in items[1:]:
            out = out + self + it
        return out

    def __iter__(self):
        raise NotImplementedError("iter")

def _py(v):
    return v.as_string() if z3.is_string_value(v) else str(v)


# ---- symbolic-preserving % formatting (only the directives prov uses) ----
import re as _re
from crosshair.core import register_patch
from crosshair.core import deep_realize
def _orig_percent(self, other):
    other = deep_realize(other)
    self = realize(self)
    with NoTracing():
        return self % other

_DIRECTIVE = _re.compile(r"%(?:(%)|([sdig]))")

def _has_symbolic(x):
    if isinstance(x, CrossHairValue):
        return True
    if isinstance(x, tuple):
        return any(_has_symbolic(i) for i in x)
    return False

def _percent(self, other):
    with NoTracing():
        simple = isinstance(self, str) and type(self) is str
    if not simple:
        return _orig_percent(self, other)
    args = other if isinstance(other, tuple) else (other,)
    pieces = []
    pos = 0
    ai = 0
    for mt in _DIRECTIVE.finditer(self):
        pieces.append(self[pos:mt.start()])
        pos = mt.end()
        if mt.group(1):
            pieces.append("%")
            continue
        if ai >= len(args):
            raise TypeError("not enough arguments for format string")
        a = args[ai]; ai += 1
        conv = mt.group(2)
        if conv == "s":
            pieces.append(a if isinstance(a, (str, AnySymbolicStr)) else str(a))
        else:
            ra = realize(a)
            with NoTracing():
                pieces.append(("%" + conv) % ra)
    if "%" in self[pos:]:
        return _orig_percent(self, other)   # unsupported directive: fall back (realises)
    pieces.append(self[pos:])
    if ai != len(args):
        raise TypeError("not all arguments converted during string formatting")
    out = ""
    for p in pieces:
        out = out + p
    return out

def install_percent_patch():
    from crosshair import core as _core
    import crosshair.core_and_libs  # make sure default registrations happened
    _core._PATCH_REGISTRATIONS[str.__mod__] = _percent


def install_format_patch():
    """format(obj, '') on an object without its own __format__ is str(obj): keep that symbolic."""
    from crosshair import core as _core
    from crosshair.libimpl import builtinslib as _bl
    _orig = _core._PATCH_REGISTRATIONS[format]
    def _format(obj, format_spec=""):
        with NoTracing():
            plain = (isinstance(format_spec, str) and format_spec == ""
                     and not isinstance(obj, (CrossHairValue, str, int, float))
                     and type(obj).__format__ is object.__format__)
        if plain:
            return _bl._str(obj)
        return _orig(obj, format_spec)
    _core._PATCH_REGISTRATIONS[format] = _format


def _decode_z3_string(v):
    """z3 prints non-printables as \\u{hex}; turn a String value into a Python str."""
    s = v.as_string()
    return _re.sub(r"\\u\{([0-9a-fA-F]+)\}", lambda m: chr(int(m.group(1), 16)), s)

def pin(x):
    """Concretise a symbolic value to a model value WITHOUT creating a decision node (representative witness)."""
    with NoTracing():
        if isinstance(x, Z3Str):
            if z3.is_string_value(x.var):
                return _decode_z3_string(x.var)
            space = context_statespace()
            if space.solver.check() != z3.sat:
                raise RuntimeError("pin on infeasible path")
            val = space.solver.model().eval(x.var, model_completion=True)
            space.add(x.var == val)
            x.var = val
            return _decode_z3_string(val)
        if isinstance(x, (SymbolicInt, SymbolicBool)):
            space = context_statespace()
            if z3.is_int_value(x.var) or z3.is_true(x.var) or z3.is_false(x.var):
                val = x.var
            else:
                space.solver.check(); val = space.solver.model().eval(x.var, model_completion=True)
                space.add(x.var == val)
            return val.as_long() if z3.is_int_value(val) else z3.is_true(val)
    return x
Z3Str.__ch_realize__ = lambda self: pin(self)
