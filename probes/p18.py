import dehash
dehash.Finder.MODS |= {"prov.serializers.provxml"}
m = dehash.install()
import json, sys, io
from symrun import explore, witness
from z3str import Z3Str, install_percent_patch, install_format_patch, pin
install_percent_patch(); install_format_patch()
from prov.model import ProvDocument, Literal
from prov.identifier import Namespace, QualifiedName, Identifier
from prov.constants import *
import prov.serializers.provxml as px
from lxml import etree as real_etree
from crosshair.tracers import NoTracing
from crosshair.core import realize, deep_realize
from crosshair.statespace import IgnoreAttempt, context_statespace
from crosshair.libimpl.builtinslib import SymbolicInt, SymbolicBool
import z3

class El:
    def __init__(self, tag, attrib=None, nsmap=None, parent=None):
        self.tag = tag; self.attrib = dehash.LDict(attrib or {}); self.nsmap = nsmap; self.text = None; self.children = []
        if parent is not None: parent.children.append(self)
    def build(self, parent=None):
        tag = realize(self.tag); ns = deep_realize(self.nsmap) if self.nsmap is not None else None
        with NoTracing():
            e = real_etree.Element(tag, nsmap=ns) if parent is None else real_etree.SubElement(parent, tag, nsmap=ns)
        for k in list(self.attrib): 
            kk, vv = realize(k), realize(self.attrib[k])
            with NoTracing(): e.attrib[kk] = vv
        t = realize(self.text) if self.text is not None else None
        with NoTracing(): e.text = t
        for c in self.children: c.build(e)
        return e
class Tree:
    def __init__(self, root): self.root = root
class ShimEtree:
    QName = real_etree.QName; parse = real_etree.parse
    @staticmethod
    def Element(tag, nsmap=None): return El(tag, None, nsmap)
    @staticmethod
    def SubElement(parent, tag, attrib=None, nsmap=None): return El(tag, attrib, nsmap, parent)
    @staticmethod
    def ElementTree(root): return Tree(root)
    @staticmethod
    def tostring(et, **kw):
        r = et.root.build()
        with NoTracing(): return real_etree.tostring(real_etree.ElementTree(r), **kw)
px.etree = ShimEtree

def fresh_int(name, lo, hi):
    with NoTracing():
        sp = context_statespace(); v = z3.Int(name + sp.uniq()); sp.add(z3.And(v >= lo, v <= hi)); return SymbolicInt(v)

def strict(v):
    if isinstance(v, QualifiedName): return ("qn", v.uri)
    if isinstance(v, Identifier): return ("uri", v.uri)
    if isinstance(v, Literal): return ("lit", v.value, v.datatype.uri if v.datatype else None, v.langtag)
    if isinstance(v, bool): return ("bool", v)
    if isinstance(v, int): return ("int", v)
    if isinstance(v, str): return ("str", v)
    return ("other", repr(v))

def harness(rec):
    ex = Namespace("ex", "http://e/")
    s = Z3Str.fresh("s", 6)
    kind = fresh_int("kind", 0, 2); attr = fresh_int("attr", 0, 2)
    vals = [s, Identifier(s), Literal(s, langtag="en")]
    names = [ex["a"], PROV_TYPE, PROV_LABEL]
    d = ProvDocument(); d.add_namespace(ex)
    e = d.entity(ex["e"], [(names[attr], vals[kind])])
    x = d.serialize(format="xml")
    rec["witness"] = {"s": pin(s), "kind": pin(kind), "attr": pin(attr)}
    d2 = ProvDocument.deserialize(content=x, format="xml")
    r = d2.get_records()
    a1 = sorted(repr((realize(k.uri), deep_realize(strict(v)))) for k, v in e.attributes)
    a2 = sorted(repr((k.uri, strict(v))) for k, v in r[0].attributes) if r else None
    if a1 != a2: return "diff %r %r" % (a1, a2)
    return None

res = explore(harness, budget_s=120, per_path_s=30, stop_on_refute=False)
print(json.dumps({k: v for k, v in res.items() if k != "paths"}))
for p in res["paths"]: print(p["status"], p.get("witness"), (p.get("msg") or "")[:150])
