import dehash
m = dehash.install()
from z3str import Z3Str
from prov.model import ProvDocument, NamespaceManager
from prov.identifier import Namespace, QualifiedName
from crosshair.tracers import is_tracing
from crosshair.core import realize
import sys

def body(p1, u1, u2, local):
    d = ProvDocument()
    d.add_namespace(p1, u1)
    q = d.valid_qualified_name(QualifiedName(Namespace(p1, u2), local))
    if q is None:
        return "q none"
    if q.uri != u2 + local:
        return "uri changed"
    r = d.valid_qualified_name(str(q))
    if r is None: return "r none"
    if r.uri != q.uri: return "r uri differs"
    return None

def clash(seed: int) -> str:
    """
    post: _ == ""
    """
    if not is_tracing():
        return ""
    p1 = Z3Str.fresh("p1", 4); u1 = Z3Str.fresh("u1", 6); u2 = Z3Str.fresh("u2", 6); local = Z3Str.fresh("l", 4)
    if len(p1) < 1 or len(u1) < 1 or len(u2) < 1 or len(local) < 1: return ""
    if ":" in local or ":" in p1 or u1.isspace() or u2.isspace() or p1.startswith("_"): return ""
    why = body(p1, u1, u2, local)
    if why is None:
        return ""
    return "%s %r" % (why, [realize(x) for x in (p1, u1, u2, local)])

if __name__ == "__main__":
    print(body(*eval(sys.argv[1])))
