import dehash
m = dehash.install()
import json, sys
from symrun import explore, witness
from z3str import Z3Str, install_percent_patch
install_percent_patch()
from prov.model import ProvDocument
from prov.identifier import Namespace, QualifiedName
from crosshair.statespace import IgnoreAttempt

def harness(rec):
    p1 = Z3Str.fresh("p1", 4); u1 = Z3Str.fresh("u1", 6); u2 = Z3Str.fresh("u2", 6); local = Z3Str.fresh("l", 4)
    named = {"p1": p1.var, "u1": u1.var, "u2": u2.var, "l": local.var}
    if len(p1) < 1 or len(u1) < 1 or len(u2) < 1 or len(local) < 1: raise IgnoreAttempt
    if ":" in local or ":" in p1 or u1.isspace() or u2.isspace(): raise IgnoreAttempt
    if sys.argv[1:] == ["strict"] and p1.startswith("_"): raise IgnoreAttempt
    d = ProvDocument()
    d.add_namespace(p1, u1)
    q = d.valid_qualified_name(QualifiedName(Namespace(p1, u2), local))
    why = None
    if q is None: why = "q none"
    elif q.uri != u2 + local: why = "uri changed"
    else:
        r = d.valid_qualified_name(str(q))
        if r is None: why = "r none"
        elif r.uri != q.uri: why = "r differs"
    rec["witness"] = witness(named)
    return why

res = explore(harness, budget_s=200)
print(json.dumps({k: v for k, v in res.items() if k != "paths"}))
for p in res["paths"]: print(p)
