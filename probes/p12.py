"""Hand-built bounded encoding of the PROV-N string-literal kernel as guarded char slots + streaming reader (z3, LIA)."""
import z3, sys, time
N = int(sys.argv[1]); FIX = len(sys.argv) > 2
c = [z3.Int("c%d" % i) for i in range(N)]; n = z3.Int("n")
s = z3.Solver()
s.add(n >= 0, n <= N, *[z3.And(x >= 0, x <= 0x10FFFF) for x in c])
s.add(*[x != 13 for x in c])           # CR excluded (separate finding)
if not FIX:
    pass
# encoder (as in repo): replace '"' -> '\"' ; multi = '\n' in s
has_nl = z3.Or(*[z3.And(i < n, c[i] == 10) for i in range(N)])
slots = []  # (guard, char)
for i in range(N):
    live = i < n
    if FIX:
        slots.append((z3.And(live, z3.Or(c[i] == 34, c[i] == 92)), z3.IntVal(92)))
    else:
        slots.append((z3.And(live, c[i] == 34), z3.IntVal(92)))
    slots.append((live, c[i]))
# reader over body slots: mode 0 normal, 1 after backslash ; streaming compare against input
ok = z3.BoolVal(True); mode = z3.IntVal(0); j = z3.IntVal(0); quotes = z3.IntVal(0)
C = z3.Array("C", z3.IntSort(), z3.IntSort())
for i in range(N): s.add(C[i] == c[i])
def esc(x):
    return z3.If(x == ord("t"), 9, z3.If(x == ord("b"), 8, z3.If(x == ord("n"), 10, z3.If(x == ord("r"), 13, z3.If(x == ord("f"), 12,
           z3.If(x == 92, 92, z3.If(x == 34, 34, z3.If(x == 39, 39, -1))))))))
for g, ch in slots:
    # decoded char (or -1 none, -2 error)
    in_norm = mode == 0
    is_bs = ch == 92
    plain_ok_short = z3.And(ch != 34, ch != 10, ch != 13)
    plain_ok_long = True   # raw quotes handled via counter
    dec = z3.If(in_norm, z3.If(is_bs, -1, ch), esc(ch))
    err = z3.If(in_norm,
                z3.If(is_bs, False, z3.If(has_nl, z3.And(ch == 34, quotes >= 2), z3.Not(plain_ok_short))),
                esc(ch) == -1)
    new_quotes = z3.If(z3.And(in_norm, ch == 34), quotes + 1, 0)
    new_mode = z3.If(z3.And(in_norm, is_bs), 1, 0)
    emit = z3.And(g, z3.Not(z3.And(in_norm, is_bs)))
    match = z3.And(j < n, C[j] == dec)
    ok = z3.If(g, z3.And(ok, z3.Not(err), z3.Implies(emit, match)), ok)
    j = z3.If(emit, j + 1, j)
    mode = z3.If(g, new_mode, mode)
    quotes = z3.If(g, new_quotes, quotes)
good = z3.And(ok, mode == 0, j == n, z3.Implies(has_nl, quotes == 0))
s.add(z3.Not(good))
t = time.time(); r = s.check(); dt = time.time() - t
print(N, "fixed" if FIX else "repo", r, "%.2fs" % dt)
if r == z3.sat:
    m = s.model(); k = m[n].as_long(); print(repr("".join(chr(m.eval(c[i], model_completion=True).as_long()) for i in range(k))))
