import json, sys, io
from symrun import explore
from crosshair.core import proxy_for_type, realize
from crosshair.statespace import IgnoreAttempt
from crosshair.tracers import NoTracing
import prov.model as pm
from prov.model import ProvDocument

class FS:
    def __init__(self): self.files = {}; self.tmp = 0; self.log = []
fs = None
class _Stream(io.BytesIO):
    def __init__(self, name): super().__init__(); self.name_ = name
    def close(self):
        fs.files[self.name_] = self.getvalue(); super().close()
class _tempfile:
    @staticmethod
    def mkstemp():
        fs.tmp += 1; n = "/tmp/T%d" % fs.tmp; fs.files[n] = b""; return (n, n)
class _os:
    @staticmethod
    def fdopen(fd, mode): return _Stream(fd)
    @staticmethod
    def remove(p): del fs.files[p]
class _shutil:
    @staticmethod
    def move(src, dst):
        fs.log.append(("move", src, dst)); fs.files[dst] = fs.files.pop(src)
pm.tempfile = _tempfile; pm.os = _os; pm.shutil = _shutil

def harness(rec):
    global fs
    fs = FS()
    name = proxy_for_type(str, "name")
    if not (1 <= len(name) <= 4): raise IgnoreAttempt
    if "/" in name or "\x00" in name: raise IgnoreAttempt
    d = ProvDocument()
    d.serialize(destination=name, format="json")
    created = [k for k in fs.files if not k.startswith("/tmp/T")]
    if len(created) != 1: return "created %r for %r" % (realize(created), realize(name))
    if created[0] != name: return "wrote %r instead of %r" % (realize(created[0]), realize(name))
    return None

res = explore(harness, budget_s=60, per_path_s=20)
print(json.dumps({k: v for k, v in res.items() if k != "paths"}))
print([p for p in res["paths"] if p["status"] == "REFUTED"], len(res["paths"]))
