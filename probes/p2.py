from typing import Optional
from prov.model import _ensure_multiline_string_triple_quoted as enc

ECH = {"t": "\t", "b": "\b", "n": "\n", "r": "\r", "f": "\f", "\\": "\\", '"': '"', "'": "'"}

def read_string_literal(lit: str) -> Optional[str]:
    """Independent reader of PROV-N STRING_LITERAL2 / STRING_LITERAL_LONG2; None if ill-formed."""
    if lit.startswith('"""') and len(lit) >= 6 and lit.endswith('"""'):
        body = lit[3:-3]
        long = True
    elif lit.startswith('"') and len(lit) >= 2 and lit.endswith('"'):
        body = lit[1:-1]
        long = False
    else:
        return None
    out = []
    i = 0
    n = len(body)
    while i < n:
        c = body[i]
        if c == "\\":
            if i + 1 >= n:
                return None
            e = body[i + 1]
            if e not in ECH:
                return None
            out.append(ECH[e])
            i += 2
            continue
        if c == '"':
            if not long:
                return None
            # in long form at most two consecutive quotes, and must be followed by a non-quote char
            j = i
            while j < n and body[j] == '"':
                j += 1
            if j - i > 2 or j >= n:
                return None
            out.append(body[i:j])
            i = j
            continue
        if not long and (c == "\n" or c == "\r"):
            return None
        out.append(c)
        i += 1
    return "".join(out)

def roundtrip(s: str) -> bool:
    """
    pre: len(s) <= 3
    pre: chr(13) not in s and chr(92) not in s
    post: _
    """
    return read_string_literal(enc(s)) == s
