import dehash
m = dehash.install()
import json, sys, datetime
from symrun import explore, witness
from z3str import Z3Str, install_percent_patch
install_percent_patch()
from prov.model import ProvDocument, PROV_REC_CLS
from prov.identifier import Namespace, QualifiedName
from prov.constants import *
from prov.serializers import provjson
from crosshair.statespace import IgnoreAttempt, context_statespace
from crosshair.libimpl.builtinslib import SymbolicInt, SymbolicBool
from crosshair.tracers import NoTracing
import z3

def fresh_int(name, lo, hi):
    with NoTracing():
        sp = context_statespace(); v = z3.Int(name + sp.uniq()); sp.add(z3.And(v >= lo, v <= hi)); return SymbolicInt(v)
def fresh_bool(name):
    with NoTracing():
        sp = context_statespace(); return SymbolicBool(z3.Bool(name + sp.uniq()))

KINDS = list(PROV_REC_CLS.keys())
T = datetime.datetime(2020, 1, 2, 3, 4, 5)

def harness(rec):
    ex = Namespace("ex", "http://e/")
    k = fresh_int("k", 0, len(KINDS) - 1)
    kind = KINDS[k]
    cls = PROV_REC_CLS[kind]
    d = ProvDocument(); d.add_namespace(ex)
    attrs = []
    for i, fa in enumerate(cls.FORMAL_ATTRIBUTES):
        if fresh_bool("has%d" % i):
            attrs.append((fa, T if fa in PROV_ATTRIBUTE_LITERALS else ex["n%d" % i]))
    ident = ex["r"] if (cls(None, ex["x"]).is_element() or fresh_bool("id")) else None
    r = d.new_record(kind, ident, attrs, [(ex["a"], "v")] if fresh_bool("extra") else None)
    c = provjson.encode_json_document(d)
    d2 = ProvDocument(); provjson.decode_json_document(c, d2)
    r2 = d2.get_records()
    if len(r2) != 1: return "count"
    if r2[0].get_type() != kind: return "kind"
    if (r2[0].identifier is None) != (ident is None): return "ident"
    a1 = [(a.uri, str(v)) for a, v in r.attributes]; a2 = [(a.uri, str(v)) for a, v in r2[0].attributes]
    if sorted(a1) != sorted(a2): return "attrs"
    return None

res = explore(harness, budget_s=900, per_path_s=30)
print(json.dumps({k: v for k, v in res.items() if k != "paths"}))
from collections import Counter
print(Counter(p["status"] for p in res["paths"]))
print([p for p in res["paths"] if p["status"] == "REFUTED"])
