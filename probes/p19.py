import dehash
m = dehash.install()
import json, sys, z3
from symrun import explore
from z3str import Z3Str, install_percent_patch, install_format_patch, pin
install_percent_patch(); install_format_patch()
from prov.model import ProvDocument
from prov.identifier import Namespace, QualifiedName
from crosshair.statespace import IgnoreAttempt, context_statespace
from crosshair.libimpl.builtinslib import SymbolicInt
from crosshair.tracers import NoTracing

K = int(sys.argv[1]); WITH_BUNDLE = sys.argv[2:3] == ["bundle"]
def fresh_int(name, lo, hi):
    with NoTracing():
        sp = context_statespace(); v = z3.Int(name + sp.uniq()); sp.add(z3.And(v >= lo, v <= hi)); return SymbolicInt(v)
def rx():
    al = z3.Union(z3.Range("a", "z"), z3.Range("A", "Z"))
    rest = z3.Union(al, z3.Range("0", "9"), z3.Re("_"))
    return z3.Concat(al, z3.Star(rest))
def prefix(tag, allow_empty=False):
    p = Z3Str.fresh(tag, 3)
    if allow_empty and len(p) == 0: return p
    if not p.matches(rx()): raise IgnoreAttempt
    return p
def uri(tag):
    u = Z3Str.fresh(tag, 3)
    if len(u) < 1 or u.isspace(): raise IgnoreAttempt
    return u
def local(tag):
    l = Z3Str.fresh(tag, 2)
    if len(l) < 1 or ":" in l: raise IgnoreAttempt
    return l

import prov.constants as pc
_PRISTINE = {id(ns): (ns, list(ns._cache.items())) for ns in (pc.PROV, pc.XSD, pc.XSI)}
def reset_globals():
    for ns, items in _PRISTINE.values():
        ns._cache = dehash.LDict(items)

def harness(rec):
    reset_globals()
    trace = []
    why = body(rec, trace)
    if why is not None:
        try:
            rec["trace"] = [tuple(pin(x) for x in t) for t in trace]
        except RuntimeError:
            rec["trace"] = "unpinnable"
    return why

def body(rec, trace):
    d = ProvDocument()
    scopes = [d] + ([d.bundle(Namespace("b", "http://b/")["b"])] if WITH_BUNDLE else [])
    default_set = [False] * len(scopes)
    handed = []      # (scope index, qname)
    registered = []  # (scope index, prefix, uri)
    for step in range(K):
        si = fresh_int("scope", 0, len(scopes) - 1) if WITH_BUNDLE else 0
        S = scopes[si]
        op = fresh_int("op", 0, 5)
        if op == 0:
            p, u = prefix("p"), uri("u"); trace.append(("add", si, p, u))
            ns = S.add_namespace(p, u)
            if ns.uri != u: return "add_namespace returned other uri"
            registered.append((si, ns.prefix, u))
        elif op == 1:
            if default_set[si] or S.get_default_namespace() is not None: raise IgnoreAttempt
            u = uri("u"); trace.append(("default", si, u)); S.set_default_namespace(u); default_set[si] = True
        else:
            p, u, l = prefix("p", allow_empty=True), uri("u"), local("l")
            if op == 2:
                if len(p) == 0 and S.get_default_namespace() is not None and S.get_default_namespace().uri != u and False: pass
                q = QualifiedName(Namespace(p, u), l); trace.append(("resolve_qn", si, p, u, l))
                r = S.valid_qualified_name(q)
                if r is None: return "QualifiedName resolved to None"
                if r.uri != q.uri: return "QualifiedName URI changed"
            elif op == 3:
                if len(p) == 0: raise IgnoreAttempt
                trace.append(("resolve_str", si, p, l)); r = S.valid_qualified_name(p + ":" + l)
            elif op == 4:
                trace.append(("resolve_bare", si, l)); r = S.valid_qualified_name(l)
            else:
                trace.append(("resolve_uri", si, u, l)); r = S.valid_qualified_name(u + l)
            if r is not None: handed.append((si, r))
        # (b) registered prefixes still point to their URIs
        for sj, pfx, u0 in registered:
            nss = [n for n in scopes[sj].namespaces if n.prefix == pfx]
            if len(nss) != 1: return "registered prefix lost or duplicated"
            if nss[0].uri != u0: return "registered prefix re-pointed"
        # (c) every handed-out name re-resolves to the same URI in its scope
        for sj, q in handed:
            r2 = scopes[sj].valid_qualified_name(str(q))
            if r2 is None: return "printed name no longer resolves"
            if r2.uri != q.uri: return "printed name resolves to another URI"
    return None

res = explore(harness, budget_s=int(sys.argv[3]) if len(sys.argv) > 3 else 600, per_path_s=30, stop_on_refute=False)
print(json.dumps({k: v for k, v in res.items() if k != "paths"}))
from collections import Counter
print(Counter(p["status"] for p in res["paths"]))
seen = set()
for p in res["paths"]:
    if p["status"] == "REFUTED" and p["msg"] not in seen:
        seen.add(p["msg"]); print(p["msg"], p.get("trace"))
