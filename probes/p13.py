import dehash
m = dehash.install()
import json, sys
from symrun import explore, witness
from z3str import Z3Str, install_percent_patch
install_percent_patch()
from prov.model import ProvDocument
from prov.identifier import Namespace, QualifiedName
from crosshair.statespace import IgnoreAttempt
from crosshair.libimpl.builtinslib import SymbolicInt, SymbolicBool
from crosshair.statespace import context_statespace
from crosshair.tracers import NoTracing
import z3

def fresh_int(name, lo, hi):
    with NoTracing():
        sp = context_statespace(); v = z3.Int(name + sp.uniq()); sp.add(z3.And(v >= lo, v <= hi)); return SymbolicInt(v)

def name(tag):
    l = Z3Str.fresh(tag, 2)
    if len(l) < 1 or ":" in l: raise IgnoreAttempt
    return l

def spec_eq(a, b):
    # a, b: lists of (local, value) for entities; set semantics
    def inn(x, L):
        for y in L:
            if x[0] == y[0] and x[1] == y[1]: return True
        return False
    return all(inn(x, b) for x in a) and all(inn(y, a) for y in b)

def harness(rec):
    ex = Namespace("ex", "http://e/")
    A = [(name("a1"), fresh_int("v", 0, 3)), (name("a2"), fresh_int("v", 0, 3))]
    B = [(name("b1"), fresh_int("w", 0, 3)), (name("b2"), fresh_int("w", 0, 3))]
    d1 = ProvDocument(); d1.add_namespace(ex); d2 = ProvDocument(); d2.add_namespace(ex)
    for l, v in A: d1.entity(ex[l], {"ex:k": v})
    for l, v in B: d2.entity(ex[l], {"ex:k": v})
    e12 = d1 == d2; e21 = d2 == d1; ne = d1 != d2
    s = spec_eq(A, B)
    if e12 != e21: return "asym"
    if e12 == ne: return "ne"
    if e12 != s: return "spec %r %r" % (e12, s)
    return None

res = explore(harness, budget_s=600, per_path_s=30)
print(json.dumps({k: v for k, v in res.items() if k != "paths"}))
from collections import Counter
print(Counter(p["status"] for p in res["paths"]))
print([p for p in res["paths"] if p["status"] == "REFUTED"])
