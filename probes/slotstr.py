"""Prototype: bounded symbolic string as guarded char slots (z3 Int/Bool only, no sequence theory)."""
import z3
from crosshair.libimpl.builtinslib import AnySymbolicStr, SymbolicBool, SymbolicInt
from crosshair.statespace import context_statespace
from crosshair.tracers import NoTracing
from crosshair.util import CrossHairValue

def _slots_of(x):
    if isinstance(x, SlotStr): return list(x.slots)
    if isinstance(x, str): return [(z3.BoolVal(True), z3.IntVal(ord(ch))) for ch in x]
    return None

class SlotStr(AnySymbolicStr, CrossHairValue):
    """string = subsequence of slots whose guard holds; slots: list[(z3 Bool, z3 Int codepoint)]"""
    def __init__(self, slots): self.slots = list(slots)
    @classmethod
    def fresh(cls, name, n):
        with NoTracing():
            sp = context_statespace(); u = sp.uniq()
            ln = z3.Int("%s_len%s" % (name, u)); sp.add(z3.And(ln >= 0, ln <= n))
            cs = [z3.Int("%s_c%d%s" % (name, i, u)) for i in range(n)]
            for c in cs: sp.add(z3.And(c >= 0, c <= 0x10FFFF))
            r = cls([(i < ln, cs[i]) for i in range(n)]); r.len_var = ln; r.chars = cs
            return r
    def __ch_realize__(self):
        import traceback, os
        if os.environ.get('TRACE_REALIZE'): traceback.print_stack(limit=14)
        with NoTracing():
            sp = context_statespace()
            out = []
            for g, c in self.slots:
                if sp.find_model_value(g) if not z3.is_true(g) else True:
                    out.append(chr(sp.find_model_value(c) if not z3.is_int_value(c) else c.as_long()))
            return "".join(out)
    def __ch_pytype__(self): return str
    def __hash__(self): return hash(self.__ch_realize__())
    def __len__(self):
        with NoTracing(): return SymbolicInt(z3.Sum([z3.If(g, 1, 0) for g, _ in self.slots]) if self.slots else z3.IntVal(0))
    def __bool__(self):
        with NoTracing(): b = SymbolicBool(z3.Or([g for g, _ in self.slots]) if self.slots else z3.BoolVal(False))
        return b.__bool__()
    def __add__(self, o):
        with NoTracing():
            s = _slots_of(o)
            return NotImplemented if s is None else SlotStr(self.slots + s)
    def __radd__(self, o):
        with NoTracing():
            s = _slots_of(o)
            return NotImplemented if s is None else SlotStr(s + self.slots)
    def __contains__(self, o):
        with NoTracing():
            if not (isinstance(o, str) and len(o) == 1): raise NotImplementedError("contains multi-char")
            k = ord(o)
            return SymbolicBool(z3.Or([z3.And(g, c == k) for g, c in self.slots]) if self.slots else z3.BoolVal(False))
    def replace(self, old, new, count=-1):
        with NoTracing():
            if not (isinstance(old, str) and len(old) == 1 and isinstance(new, str) and count == -1):
                raise NotImplementedError("replace shape")
            k = ord(old); out = []
            for g, c in self.slots:
                hit = z3.And(g, c == k)
                if len(new) == 0:
                    out.append((z3.And(g, c != k), c))
                else:
                    # first char of replacement or the original char share a slot; remaining replacement chars get own slots
                    out.append((g, z3.If(c == k, ord(new[0]), c)))
                    for ch in new[1:]:
                        out.append((hit, z3.IntVal(ord(ch))))
            return SlotStr(out)
    def __eq__(self, o):
        with NoTracing():
            if isinstance(o, str) and len(o) == 0:
                return SymbolicBool(z3.Not(z3.Or([g for g, _ in self.slots])) if self.slots else z3.BoolVal(True))
        raise NotImplementedError("eq")
    def join(self, items): raise NotImplementedError
    def __getitem__(self, i): raise NotImplementedError("getitem")
    def __iter__(self): raise NotImplementedError("iter")


def run_reader(slots, step, init, final):
    """Fold a spec transducer over guarded slots: state is a dict of z3 exprs; inactive slots leave it unchanged."""
    st = dict(init)
    for g, c in slots:
        nxt = step(st, c)
        st = {k: z3.If(g, nxt[k], st[k]) for k in st}
    return final(st)
