"""Prototype: load prov.* from /repo/src with hashed containers replaced by ==-scanning ones."""
import ast, sys, types, importlib.abc, importlib.util, os
from collections.abc import MutableMapping, MutableSet, Set

SRC = "/repo/src"

from abc import ABCMeta
class _DM(ABCMeta):
    def __instancecheck__(cls, obj):
        return isinstance(obj, _REAL.get(cls.__name__, ())) or ABCMeta.__instancecheck__(cls, obj)
    def __subclasscheck__(cls, sub):
        try:
            if issubclass(sub, _REAL.get(cls.__name__, ())): return True
        except TypeError: pass
        return ABCMeta.__subclasscheck__(cls, sub)
_REAL = {"LDict": dict, "LDefaultDict": dict, "LSet": (set, frozenset), "LFrozenSet": frozenset}

class LDict(MutableMapping, metaclass=_DM):
    def __init__(self, *a, **kw):
        self._k = []; self._v = []
        if a:
            src = a[0]
            if hasattr(src, "items"): src = src.items()
            for k, v in src: self[k] = v
        for k, v in kw.items(): self[k] = v
    def _idx(self, key):
        for i, k in enumerate(self._k):
            if k is key or k == key: return i
        return -1
    def __getitem__(self, key):
        i = self._idx(key)
        if i < 0:
            m = getattr(type(self), "__missing__", None)
            if m is not None: return m(self, key)
            raise KeyError(key)
        return self._v[i]
    def __setitem__(self, key, value):
        i = self._idx(key)
        if i < 0: self._k.append(key); self._v.append(value)
        else: self._v[i] = value
    def __delitem__(self, key):
        i = self._idx(key)
        if i < 0: raise KeyError(key)
        del self._k[i]; del self._v[i]
    def __iter__(self): return iter(list(self._k))
    def __len__(self): return len(self._k)
    def __contains__(self, key): return self._idx(key) >= 0
    def copy(self): return type(self)(self)
    def __repr__(self): return "LDict(%r)" % list(zip(self._k, self._v))

class LDefaultDict(LDict):
    def __init__(self, factory=None, *a, **kw):
        self.default_factory = factory
        LDict.__init__(self, *a, **kw)
    def __missing__(self, key):
        if self.default_factory is None: raise KeyError(key)
        v = self.default_factory(); self[key] = v; return v

class LSet(MutableSet, metaclass=_DM):
    def __init__(self, it=()):
        self._e = []
        for x in it: self.add(x)
    def __contains__(self, x):
        for e in self._e:
            if e is x or e == x: return True
        return False
    def __iter__(self): return iter(list(self._e))
    def __len__(self): return len(self._e)
    def add(self, x):
        if x not in self: self._e.append(x)
    def discard(self, x):
        for i, e in enumerate(self._e):
            if e is x or e == x: del self._e[i]; return
    def remove(self, x):
        if x not in self: raise KeyError(x)
        self.discard(x)
    def update(self, *its):
        for it in its:
            for x in it: self.add(x)
    def copy(self): return LSet(self._e)
    def __repr__(self): return "LSet(%r)" % self._e
    @classmethod
    def _from_iterable(cls, it): return cls(it)
    def __eq__(self, other):
        if not isinstance(other, (Set, set, frozenset)): return NotImplemented
        return len(self) == len(other) and all(x in other for x in self._e)
    __hash__ = None

class LFrozenSet(LSet):
    def __hash__(self): return 7

class T(ast.NodeTransformer):
    def visit_Dict(self, node):
        self.generic_visit(node)
        if any(k is None for k in node.keys): return node
        return ast.copy_location(ast.Call(ast.Name("dict", ast.Load()), [ast.List([ast.Tuple([k, v], ast.Load()) for k, v in zip(node.keys, node.values)], ast.Load())], []), node)
    def visit_Set(self, node):
        self.generic_visit(node)
        return ast.copy_location(ast.Call(ast.Name("set", ast.Load()), [ast.List(node.elts, ast.Load())], []), node)
    def visit_DictComp(self, node):
        self.generic_visit(node)
        return ast.copy_location(ast.Call(ast.Name("dict", ast.Load()), [ast.ListComp(ast.Tuple([node.key, node.value], ast.Load()), node.generators)], []), node)
    def visit_SetComp(self, node):
        self.generic_visit(node)
        return ast.copy_location(ast.Call(ast.Name("set", ast.Load()), [ast.ListComp(node.elt, node.generators)], []), node)

INJECT = {"dict": LDict, "set": LSet, "frozenset": LFrozenSet}

class Loader(importlib.abc.Loader):
    def __init__(self, path): self.path = path
    def create_module(self, spec): return None
    def exec_module(self, module):
        src = open(self.path).read()
        tree = T().visit(ast.parse(src, self.path)); ast.fix_missing_locations(tree)
        module.__dict__.update(INJECT)
        exec(compile(tree, self.path, "exec"), module.__dict__)
        if "defaultdict" in module.__dict__: pass

class Finder(importlib.abc.MetaPathFinder):
    MODS = {"prov.identifier", "prov.constants", "prov.model", "prov.serializers.provjson"}
    def find_spec(self, name, path, target=None):
        if name in self.MODS:
            p = os.path.join(SRC, *name.split(".")) + ".py"
            return importlib.util.spec_from_file_location(name, p, loader=Loader(p))
        return None

def install():
    import collections
    sys.meta_path.insert(0, Finder())
    # defaultdict is imported by name from collections inside the modules: patch after import
    import prov.model as m
    m.defaultdict = LDefaultDict
    try:
        import prov.serializers.provjson as pj
        pj.defaultdict = LDefaultDict
    except Exception as e:
        print("provjson", e)
    return m
