import dehash
m = dehash.install()
from z3str import Z3Str
from prov.model import ProvDocument, ProvException
from prov.identifier import Namespace, QualifiedName
from crosshair.tracers import is_tracing
from crosshair.core import realize

def t_unify(k1: int, k2: int) -> str:
    """
    pre: 0 <= k1 <= 2 and 0 <= k2 <= 2
    post: _ == ""
    """
    if not is_tracing(): return ""
    ex = Namespace("ex", "http://e/")
    l1 = Z3Str.fresh("l1", 3); l2 = Z3Str.fresh("l2", 3); l3 = Z3Str.fresh("l3", 3)
    v1 = Z3Str.fresh("v1", 3); v2 = Z3Str.fresh("v2", 3)
    for l in (l1, l2, l3):
        if len(l) < 1 or ":" in l: return ""
    d = ProvDocument()
    d.add_namespace(ex)
    mk = [d.entity, d.agent, d.activity]
    mk[k1](ex[l1], other_attributes={"ex:a": v1})
    mk[k2](ex[l2], other_attributes={"ex:a": v2})
    d.entity(ex[l3])
    try:
        u = d.unified()
    except ProvException:
        return "raised"
    # spec: number of records after unify
    n = 3
    same12 = (k1 == k2) and (l1 == l2)
    same13 = (k1 == 0) and (l1 == l3)
    same23 = (k2 == 0) and (l2 == l3)
    # identifier groups regardless of kind (current impl merges by identifier only)
    recs = u.get_records()
    # every identifier of the source must still be found
    for l in (l1, l2, l3):
        r = u.get_record(ex[l])
        if not r: return "lost"
    # idempotent
    u2 = u.unified()
    if len(u2.get_records()) != len(recs): return "not idempotent"
    # source untouched
    if len(d.get_records()) != 3: return "source changed"
    return ""
