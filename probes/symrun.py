"""Prototype driver: explore all paths of a no-arg harness with CrossHair's search tree; collect per-path witnesses."""
import time, sys, z3, traceback
from crosshair.core_and_libs import standalone_statespace  # noqa: registers libs
from crosshair.core import Patched, ExceptionFilter
from crosshair.condition_parser import condition_parser
from crosshair.options import DEFAULT_OPTIONS
from crosshair.statespace import (StateSpace, StateSpaceContext, RootNode, CallAnalysis, VerificationStatus,
                                  context_statespace)
from crosshair.tracers import COMPOSITE_TRACER, NoTracing, ResumedTracing
from crosshair.util import UnexploredPath, IgnoreAttempt, CrossHairInternal, NotDeterministic
from crosshair import statespace as _ss

class Violation(Exception):
    pass

_qstats = {"queries": 0, "solver_s": 0.0}
_orig_sat = _ss.solver_is_sat
def _timed_sat(solver, *a):
    t = time.perf_counter()
    try:
        return _orig_sat(solver, *a)
    finally:
        _qstats["queries"] += 1; _qstats["solver_s"] += time.perf_counter() - t
_ss.solver_is_sat = _timed_sat

def witness(named):
    """Evaluate named z3 vars in a model of the current path condition (no fork)."""
    with NoTracing():
        space = context_statespace()
        if space.solver.check() != z3.sat:
            return None
        mdl = space.solver.model()
        out = {}
        for k, v in named.items():
            val = mdl.eval(v, model_completion=True)
            out[k] = val.as_string() if z3.is_string_value(val) else str(val)
        return out

def explore(harness, budget_s=300, per_path_s=30, stop_on_refute=True):
    root = RootNode()
    paths = []
    t0 = time.time(); verdict = None; exhausted = False
    with condition_parser(DEFAULT_OPTIONS.analysis_kind), Patched():
        i = 0
        while time.time() - t0 < budget_s:
            i += 1
            start = time.process_time()
            space = StateSpace(execution_deadline=start + per_path_s, model_check_timeout=per_path_s / 2, search_root=root)
            rec = {"n": i}
            try:
                with StateSpaceContext(space), COMPOSITE_TRACER, NoTracing():
                    try:
                        with ResumedTracing():
                            msg = harness(rec)
                        if msg:
                            rec["status"] = "REFUTED"; rec["msg"] = msg
                            analysis = CallAnalysis(VerificationStatus.REFUTED)
                        else:
                            rec["status"] = "CONFIRMED"
                            analysis = CallAnalysis(VerificationStatus.CONFIRMED)
                    except (UnexploredPath,) as e:
                        rec["status"] = "UNKNOWN"; rec["why"] = type(e).__name__
                        analysis = CallAnalysis(VerificationStatus.UNKNOWN)
                    except IgnoreAttempt:
                        rec["status"] = "IGNORED"
                        analysis = CallAnalysis()
            except NotDeterministic:
                rec["status"] = "NONDET"; analysis = CallAnalysis(VerificationStatus.UNKNOWN)
            top, exhausted = space.bubble_status(analysis)
            paths.append(rec)
            if rec["status"] == "REFUTED" and stop_on_refute:
                verdict = "REFUTED"; break
            if exhausted:
                verdict = top.verification_status.name if top and top.verification_status else "UNKNOWN"; break
    return {"verdict": verdict or "TIMEOUT", "exhausted": exhausted, "paths": paths, "wall_s": time.time() - t0, **_qstats}
