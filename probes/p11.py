import dehash
m = dehash.install()
import json, sys
from symrun import explore, witness
from z3str import Z3Str, install_percent_patch
install_percent_patch()
from prov.model import _ensure_multiline_string_triple_quoted as enc
from crosshair.statespace import IgnoreAttempt

N = int(sys.argv[1])
ESC = {"t": "\t", "b": "\b", "n": "\n", "r": "\r", "f": "\f", "\\": "\\", '"': '"', "'": "'"}

def read_body(body, long):
    """independent reader, regex-free: returns (ok, value)"""
    out = ""
    while True:
        c = body.cut("\\")
        seg = body if c is None else c[0]
        if long:
            if '"""' in seg: return False, None
        else:
            if '"' in seg or "\n" in seg or "\r" in seg: return False, None
        out = out + seg
        if c is None:
            if long and seg.endswith('"'): return False, None
            return True, out
        body = c[1]
        e = body[0:1]
        hit = None
        for k, r in ESC.items():
            if e == k:
                hit = r
                break
        if hit is None: return False, None
        out = out + hit
        body = body[1:]

def harness(rec):
    s = Z3Str.fresh("s", N)
    if "\r" in s or "\\" in s: raise IgnoreAttempt
    lit = enc(s)
    why = None
    if lit.startswith('"""'):
        if not (len(lit) >= 6 and lit.endswith('"""')): why = "long frame"
        else:
            ok, back = read_body(lit[3:-3], True)
    else:
        if not (len(lit) >= 2 and lit.startswith('"') and lit.endswith('"')): why = "short frame"
        else:
            ok, back = read_body(lit[1:-1], False)
    if why is None:
        if not ok: why = "ill-formed"
        elif back != s: why = "value changed"
    rec["witness"] = witness({"s": s.var})
    return why

res = explore(harness, budget_s=900, per_path_s=60)
print(json.dumps({k: v for k, v in res.items() if k != "paths"}))
from collections import Counter
print(Counter(p["status"] for p in res["paths"]))
print([p.get("witness") for p in res["paths"]][:12])
