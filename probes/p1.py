from urllib.parse import urlparse

def path_of(location: str) -> str:
    """
    pre: len(location) <= 4
    pre: len(location) >= 1
    post: _ == location
    """
    scheme, netloc, path, params, _query, fragment = urlparse(location)
    if netloc != "":
        return location
    return path
