#!/usr/bin/env python3
"""Regenerate MANIFEST.json from the table below (kept in one place so it is always valid)."""
import json, os
V = os.path.dirname(os.path.dirname(os.path.abspath(__file__)))
TECH = "symbolic execution of the real prov source (CrossHair search tree over an AST-regenerated de-hashed build) with z3 deciding every branch on bounded symbolic strings/ints; all paths exhausted within stated bounds; every path witness replayed on the unmodified build"
CLAIMED = {
 "C03": ("bounded model checking of namespace histories: for every history of <=2 (quick) / <=3 (thorough) operations on a document and its bundle, with symbolic prefixes, URIs and local names, z3 shows assertions (a),(b),(c) hold on every execution path of the real NamespaceManager code; four genuine defects are listed as known findings with narrow regions", "4/C03",
         "bounds: history length, string lengths (|prefix|<=3,|uri|<=3..4,|local|<=2); validity assumptions on names listed in evidence; hash-order of sets not modelled"),
}
CLAIMED.update({
 "C18": ("bounded model checking: for every container built by <=3 (quick) / <=4 (thorough) record insertions through each of 8 insertion paths, with symbolic identifiers (all aliasing patterns) and 6 spellings of the query name, z3 shows get_record/get_records/records agree with a scan of the record list on every path of the real code; further obligations: derived containers queried with the spellings they print themselves, one prefix bound to three URIs arriving in 4 orders, and look-up -> change of meaning -> look-up histories", "4/C18",
         "bounds: record count, |local|<=2, menus of record kinds/spellings per position (evidence lists them); set/hash order not modelled"),
 "C08": ("bounded model checking of unified(): all documents of <=3 top-level records / bundle of <=2 from 10 record shapes with symbolic identifiers and values; z3 decides exception-iff-conflict, one record per (identifier, kind), union of attributes, order, idempotence, source unchanged on every path, also after 0-3 look-ups of absent identifiers", "4/C08",
         "bounds: record counts, shapes, |local|<=2; datetimes from a catalogue; two defects found were repaired (fix: commits)"),
 "C04": ("bounded model checking of ==: for all pairs (and triples) of documents in bounds z3 shows d1==d2, d2==d1, != and record/bundle equality coincide with an independent set-based content equivalence; content-preserving transformations give equal documents; documents spelling names with the same prefix:local text under a symbolic other URI and values sharing one URI text (qualified name / anyURI / string) are told apart; hash agreement checked on every replayed witness", "4/C04",
         "bounds: <=2 (quick) / <=3 records per side, bundles of <=1/2 records; ints unbounded symbolic; stub: str(record) for logger.debug"),
 "C05": ("bounded model checking of record normal form: 18 kinds x 4 entry paths x presence masks x every representation of each formal argument; second-value guard for every formal attribute, also for two values inside one call; subtype factories with caller-supplied prov:type; Literal(lexical, native xsd type) vs native value; set_time; asserted types - z3 decides name aliasing and value equality on every path", "4/C05",
         "bounds: one record + one follow-up call, |local|<=2; xsd:double/dateTime/boolean lexicals and times from catalogues (dateutil/float conversions run concretely); ints via contract int(str(n))==n; not claimed: multi-entity membership compatibility path"),
 "C12": ("bounded model checking of state isolation: after each of 13 deriving operations (incl. re-adding own records, update(self), bundle with own default namespace; one text deserialised twice on replay) a heap check shows no mutable container is reachable from both sides, and for each of 6 follow-up mutations on either side z3-decided comparison shows the other side's content, order, namespaces and default namespace unchanged, on every path", "4/C12",
         "bounds: source of 2 records (+bundle of 2), |local|<=2, symbolic mutation operands; the shared NamespaceManager of unified() was found and repaired (fix: commit)"),
 "C09": ("bounded model checking of flattened/update/add_bundle/bundle: for sequences of 1-2 (quick) / 3 (thorough) operations on two documents with symbolic default namespaces, prefix URIs and bundle identifiers, z3 shows the multiset identities on strict URI-level content, the refusal cases and 'other unchanged' on every path", "4/C09",
         "bounds: 2 records per document (+1 bundle record), |uri|<=3..4; first document's URIs fixed, second document's symbolic; structural choices enumerated as shards (pairwise-covering subset for two-step sequences in quick)"),
 "C01": ("bounded model checking of decode(encode(d)) at PROV-JSON container level with symbolic contents (all value kinds, name classes, namespace modes, 18 kinds x masks, repeated identifiers, bundles, sibling bundles binding one prefix to symbolic URIs, empty bundles), z3 deciding strict equality on every path; each path witness is then serialised to real JSON text under all 8 dump options and read back on the unmodified build", "4/C01",
         "container level is for-all within bounds; the json text layer (C code) is crossed with one solver-chosen representative per path plus float/datetime catalogues; two known findings (namespace-URI/prefix ambiguity, bundle shadowing a document prefix)"),
 "C10": ("an independent PROV-JSON reader written from the specification is run symbolically on the emitted container (contents symbolic) and must recover the same strict content and accept the structure; on replay the real text under all dump options is read by the same reader", "4/C10",
         "JSON: for-all at container level within bounds + text on witnesses; XML: the writer's paths are exhausted symbolically against an etree recorder and each witness is written by real lxml and read by an independent xml.etree-based reader (structure rules, prov:ref, child order); readers share no code with prov"),
 "C02": ("path-complete exploration of the real PROV-XML writer (serialize_bundle/_derive_record_label run symbolically against an etree recorder, so the solver picks contents reaching every content-dependent branch: empty text, 'prov:'-prefixed text, subtype values, time attributes ...) over the C01 document space x force_types; every path witness is serialised with real lxml, read back and compared strictly on the unmodified build", "4/C02",
         "PATH_COMPLETE: one solver-chosen representative per writer path crosses lxml; reader paths are exercised on those witnesses only; five XML defects found were repaired (fix: commits); one known finding (bundle shadowing a document prefix)"),
 "C06": ("(i) SMT kernel: for every string of <=8 (quick) / <=16 (thorough) code points the literal printed by the real escaping code is accepted by a transducer of the PROV-N STRING_LITERAL grammar and denotes the source string - one z3 query per call site, all strings at once; (ii) path-complete exploration of get_provn() over the C01 document space and over print -> modify -> print histories, each path's text parsed by an independent recursive-descent PROV-N parser (W3C grammar) and compared strictly", "4/C06",
         "kernel: for-all within the length bound; expressions: one solver-chosen representative per path (text is pinned before parsing); floats/datetimes from catalogues; PROV-N-inexpressible records (identified/attributed specialization, alternate, membership, mention) excluded"),
 "C15": ("(i) SMT kernels: for every identifier / label / attribute value / attribute name / URI of <=N code points, the label and URL strings the real prov.dot code passes to pydot are single well-formed DOT IDs (Graphviz scanner rules for quoted strings; HTML-like labels whose markup skeleton is exactly the template's and whose entity-decoded data is exactly the source) - one z3 query per call site covering all strings; (ii) path-complete exploration of prov_to_dot over documents x 16 option combinations x directions, each witness rendered by real pydot and parsed by Graphviz (dot -Tdot_json) and checked for nodes/clusters/edge paths/annotations", "4/C15",
         "kernels: for-all within N (quoted 6/12, HTML 3/6); structure: one representative per path, Graphviz 2.43 as acceptance oracle; hostile label/value texts from a catalogue; one known finding (top-level node drawn inside a bundle cluster)"),
 "C14": ("path-complete exploration of prov_to_graph / graph_to_prov: the solver enumerates every combination of relation kind, declared / undeclared / coinciding endpoints, one-ended relations, identified relations, repeated identifiers and two element kinds under one identifier within the bounds; on each path the real networkx graph is checked (nodes, inferred nodes, one directed edge per two-ended relation, inverse conversion = unified elements + those relations, strict multiset)", "4/C14",
         "PATH_COMPLETE: names are concrete catalogue values (networkx hashes nodes); bounds: 3-5 elements, <=2 relations (15 kinds alone, 40 (quick) / all 120 (thorough) kind pairs), relations before/after declarations, shared relation identifiers; the harness makes finite choices only, so Stage A is a pure enumerator and the conversion runs once per configuration on the unmodified build"),
 "C17": ("symbolic execution of the real ProvDocument.serialize with a symbolic destination name over in-memory OS stand-ins: the solver yields one file name per path of the name handling (stdlib urlparse traced too); every witness (plus a catalogue of 18 names no branch singles out: percent escapes, spaces, non-ASCII ...) is replayed on the real file system x 4 formats x 6 fault points (k-th stream write, flush/close of a buffered stream, final move) x with/without pre-existing file with fault-injecting proxies, checking exact target, completeness, untouched sibling files (name.tmp, name.bak ...), no stray files and all-or-nothing", "4/C17",
         "PATH_COMPLETE w.r.t. the name handling; fault model: the default temp dir is another device (copy not atomic, rename fails with EXDEV), atomic rename either happens or not; names of 1-3 (quick) / 1-4 (thorough) code points"),
 "C13": ("(i) bounded model checking: for ordered pairs of pure-Python exporters (PROV-JSON container encoder, ==, unified, flattened, lookups) on documents with symbolic contents z3 shows strict content, record order, registered and default namespaces identical before/after and the container unchanged; (ii) on every construction-path witness the unmodified build runs all 15 exporters (json +options, xml +/-force_types, provn, rdf, graph, dot, ==, hash, unified, flattened, lookups) and all 225 ordered pairs: snapshot unchanged, identical text on repetition and on a twin document built by the same calls (RDF: canonicalised graphs)", "4/C13",
         "pure exporters for-all within bounds; C-backed exporters (lxml, rdflib, networkx, pydot) on one representative per construction path; determinism across processes / hash seeds outside the claim"),
 "C16": ("exhaustive enumeration, by the path search, of the 2880 configurations format x destination kind x source kind x prov.read with/without format x 10 document variants x 3 file names (plain, URL syntax, non-ASCII) wherever a path is destination or source (non-ASCII content; three > 16 KiB multi-byte documents; path destinations also over a longer pre-existing file); each configuration is executed on the unmodified build (real streams and files) and compared strictly", "4/C16",
         "the weakest use of the technique: no symbolic content, the solver only enumerates the finite configuration space (stated in DESIGN.md); RDF compared against unified()"),
 "C07": ("exhaustive enumeration, by the path search, of the structural space of PROV-O-expressible documents (14 relation kinds x identified/anonymous x optional-argument masks x 0-2 extra attributes of 13 kinds x element attributes/times x document/bundle x all 182 ordered pairs of relation kinds); every configuration is written as TriG and read back by the real rdflib stack on the unmodified build and compared (set-based, strict) with unified()", "4/C07",
         "weakest fit (stated in DESIGN.md): rdflib is entered at the first statement, so there is no symbolic content - the solver only enumerates the finite structural space; the quantifier's exclusions are assumptions; one known finding (attributed-anonymous + plain relation of one kind on one subject)"),
 "C11": ("bounded model checking of the PROV-JSON decoder on foreign input: a specification-driven generator builds container trees the writer never produces (20 value spellings, array-wrapped single values, multi-entity memberships, record arrays, bundle prefix blocks) with symbolic contents; z3 shows on every path: library error, or strict content == the tree's denotation by an independent reader and decode(encode(d)) == d; witnesses also cross JSON text and JSON->XML; PROV-XML: choice-complete specification-driven texts on the real lxml stack", "4/C11",
         "JSON container level for-all within bounds; XML and cross-format on witnesses (PATH_COMPLETE); NOT claimed: single-point mutations of the 398+45 corpus files (file enumeration, not a solver question)"),
})
NA = {}
props = [json.loads(l) for l in open(os.path.join(V, "properties.jsonl"))]
checks = []
na = []
for p in props:
    pid = p["id"]
    if pid in CLAIMED:
        text, ref, note = CLAIMED[pid]
        checks.append({
            "property_id": pid,
            "quick_cmd": "bin/check %s --tier quick" % pid,
            "thorough_cmd": "bin/check %s --tier thorough" % pid,
            "evidence_file": "evidence/%s.json" % pid,
            "replay_cmd_template": "bin/check %s --replay {path}" % pid,
            "engine": "symprov",
            "level_claimed": {"category": "model_checking", "text": text, "design_ref": ref},
            "level_note": note,
            "technique": TECH,
        })
    else:
        na.append({"property_id": pid, "reason": NA.get(pid, "check not built yet in this session (solver-based harness planned, see DESIGN.md section 4); not claimed until it exists")})
m = {
 "version": 1,
 "setup_cmd": "bin/setup",
 "hooks": {"guard": "PROV_VERIF", "enable": "no source hooks are needed: the encoding is regenerated from /repo/src at import time by symprov/dehash.py", 
           "baseline_off_cmd": "cd /repo && /venv/bin/python -m pytest -ra -q -p no:cacheprovider --timeout=900 --continue-on-collection-errors",
           "source_commits": [], "add_only": True},
 "engines": [{"name": "symprov", "path": "symprov/", "serves_properties": sorted(CLAIMED),
              "kind_free_text": "CrossHair 0.0.110 path search + z3 over bounded symbolic strings (ArrStr: LIA code-point arrays; SlotStr: guarded slots), de-hashed AST rebuild of prov, Stage-B concrete replay on the unmodified build"}],
 "checks": checks,
 "not_applicable": na,
 "notes": "exit 0 held / exit 1 VIOLATION / exit 3 harness error. known_findings.json lists genuine defects (KNOWN-FINDING lines).",
}
json.dump(m, open(os.path.join(V, "MANIFEST.json"), "w"), indent=1)
print("claimed", sorted(CLAIMED), "na", len(na))
